#!/bin/bash
# Build the overlay interpreter: /venv's site-packages (repo deps) + crosshair/z3/cvc5 from the offline wheelhouse.
set -e
cd "$(dirname "$0")"
if [ -x .venv/bin/python ] && .venv/bin/python -c "import crosshair, z3, numpy, xarray, construct" 2>/dev/null; then
  echo "overlay interpreter present"; exit 0
fi
rm -rf .venv
/venv/bin/python -m venv .venv
SP=$(.venv/bin/python -c "import sysconfig; print(sysconfig.get_paths()['purelib'])")
echo "import site; site.addsitedir('/venv/lib/python3.12/site-packages')" > "$SP/_venv_overlay.pth"
PIP_NO_INDEX=1 .venv/bin/pip install -q --no-index --find-links /opt/veriftools/wheels crosshair-tool z3-solver cvc5
.venv/bin/python -c "import crosshair, z3, numpy, xarray, construct; print('overlay interpreter built')"
