"""C17: calendar convention of the time decoders.  Convention: instant = 1 Jan of the year + (day_of_year - 1) days + fraction."""
import datetime

import construct as _c

from ceos_alos2 import datatypes as D
from ceos_alos2.hierarchy import Group, Variable
from ceos_alos2.sar_leader import attitude as AT
from ceos_alos2.sar_leader import metadata as MD


def _days_from_civil(y, m, d):
    """days since 1970-01-01 (proleptic Gregorian), independent of the datetime module"""
    y -= m <= 2
    era = (y if y >= 0 else y - 399) // 400
    yoe = y - era * 400
    doy = (153 * (m + (-3 if m > 2 else 9)) + 2) // 5 + d - 1
    doe = yoe * 365 + yoe // 4 - yoe // 100 + doy
    return era * 146097 + doe - 719468


def _us_since_epoch(t):
    delta = t - datetime.datetime(1970, 1, 1)
    return (delta.days * 86400 + delta.seconds) * 10**6 + delta.microseconds


_YDMS = D.DatetimeYdms(_c.Struct("year" / _c.Int32ub, "day_of_year" / _c.Int32ub, "milliseconds" / _c.Int32ub))


def ydms_ok(year: int, doy: int, ms: int) -> bool:
    """
    pre: 2014 <= year <= 2049 and 1 <= doy <= 366 and 0 <= ms < 86400000
    post: _
    """
    got = _YDMS._decode({"year": year, "day_of_year": doy, "milliseconds": ms}, None, None)
    return _us_since_epoch(got) == ((_days_from_civil(year, 1, 1) + doy - 1) * 86400000 + ms) * 1000


REFS = [(2014, 1, 1, 0, 0, 0, 0), (2016, 2, 29, 23, 59, 59, 999000), (2020, 2, 28, 12, 0, 0, 1000), (2020, 3, 1, 0, 0, 0, 0),
        (2020, 12, 31, 23, 59, 59, 999000), (2049, 12, 31, 6, 7, 8, 9000), (2023, 10, 9, 17, 3, 0, 0)]


REF_OBJS = [datetime.datetime(*r) for r in REFS]  # created at import time: real C datetime objects


def ydus_ok(us: int) -> bool:
    """
    pre: 0 <= us < 86400000000
    post: _
    """
    # the reference date is concrete (CrossHair's datetime model cannot run datetime.combine on a symbolic date)
    ok = True
    for r, ref in zip(REFS, REF_OBJS):
        got = D.DatetimeYdus(_c.Int64ub, lambda ctx: ctx["ref"])._decode(us, {"ref": ref}, None)
        got2 = D.DatetimeYdus(_c.Int64ub, ref)._decode(us, {}, None)
        want = _days_from_civil(r[0], r[1], r[2]) * 86400 * 10**6 + us
        ok = ok & (_us_since_epoch(got) == want) & (_us_since_epoch(got2) == want)
    return ok


# ---- attitude time: pure-python model of the four numpy calls used (timedelta64/datetime64 unit arithmetic on ints)
UNIT_NS = {"D": 86400 * 10**9, "h": 3600 * 10**9, "m": 60 * 10**9, "s": 10**9, "ms": 10**6, "us": 10**3, "ns": 1}


def _unit(dtype):
    return dtype[dtype.index("[") + 1:-1]


class TD:
    """timedelta64 array: list of ints in `unit`"""

    def __init__(self, vals, unit):
        self.vals, self.unit = list(vals), unit

    def __add__(self, o):
        if not isinstance(o, TD):
            return NotImplemented
        u = self.unit if UNIT_NS[self.unit] <= UNIT_NS[o.unit] else o.unit  # numpy promotes to the finer unit
        fa, fb = UNIT_NS[self.unit] // UNIT_NS[u], UNIT_NS[o.unit] // UNIT_NS[u]
        return TD([a * fa + b * fb for a, b in zip(self.vals, o.vals)], u)

    def astype(self, dt):
        u = _unit(dt)
        if not dt.startswith("timedelta64") or UNIT_NS[self.unit] % UNIT_NS[u]:
            raise NotImplementedError(dt)
        return TD([v * (UNIT_NS[self.unit] // UNIT_NS[u]) for v in self.vals], u)


class DT:
    """datetime64[ns]: ns since epoch"""

    def __init__(self, vals):
        self.vals = vals

    def __add__(self, td):
        if not isinstance(td, TD):
            return NotImplemented
        if len(self.vals) == 1:
            return DT([self.vals[0] + v * UNIT_NS[td.unit] for v in td.vals])
        return DT([a + v * UNIT_NS[td.unit] for a, v in zip(self.vals, td.vals)])

    __radd__ = __add__


class NPShim:
    @staticmethod
    def asarray(v, dtype=None):
        if not dtype.startswith("timedelta64["):
            raise NotImplementedError(dtype)
        return TD(v, _unit(dtype))

    @staticmethod
    def array(s, dtype=None):
        if dtype in ("datetime64[ns]", "datetime64[D]", "datetime64[s]") and isinstance(s, str) and len(s) == 10:
            y, m, d = int(s[:4]), int(s[5:7]), int(s[8:10])
            return DT([_days_from_civil(y, m, d) * 86400 * 10**9])
        if isinstance(s, (list, TD)) and dtype is not None and dtype.startswith("timedelta64["):
            return TD(s.vals if isinstance(s, TD) else s, _unit(dtype))
        raise NotImplementedError((s, dtype))


YEARS = list(range(2014, 2050))


def _att_diff(year, doy, ms):
    orig = (AT.np, MD.np)
    AT.np = NPShim
    MD.np = NPShim
    try:
        t = AT.transform_time({"day_of_year": [doy], "millisecond_of_day": [ms]})
        g = Group(None, None, {
            "platform_position": Group(None, None, {}, {"datetime_of_first_point": "%04d-03-04T00:00:00" % year}),
            "attitude": Group(None, None, {"attitude": Group(None, None, {"time": Variable("points", t, {})}, {}),
                                            "rates": Group(None, None, {"time": Variable("points", t, {})}, {})}, {})}, {})
        out = MD.fix_attitude_time(g)
        got = out["attitude"]["attitude"].data["time"].data.vals[0]
        got2 = out["attitude"]["rates"].data["time"].data.vals[0]
    finally:
        AT.np, MD.np = orig
    want = (_days_from_civil(year, 1, 1) + doy - 1) * 86400 * 10**9 + ms * 10**6
    return got - want, got2 - want


def att_ok(year_idx: int, doy: int, ms: int) -> bool:
    """
    pre: 0 <= year_idx < 36 and 1 <= doy <= 366 and 0 <= ms < 86400000
    post: _
    """
    ok = True
    for i, y in enumerate(YEARS):
        if i == year_idx:
            d1, d2 = _att_diff(y, doy, ms)
            ok = ok & (d1 == 0) & (d2 == 0)
    return ok


def finding_key_att_ok(year_idx, doy, ms):
    d1, d2 = _att_diff(YEARS[year_idx], doy, ms)
    return f"C17.att:offset={d1}ns,{d2}ns"


def api_replay_att_ok(year_idx, doy, ms):
    """the same instant written into the image line records and the attitude points of a synthesised product"""
    import numpy as np

    import ceos_alos2
    from vlib import api

    year = YEARS[year_idx]

    def run(root, datas):
        tree = ceos_alos2.open_alos2(root, backend_options={"use_cache": False})
        img = tree["imagery/HH"]["sensor_acquisition_date"].values[0]
        att = tree["metadata/attitude/attitude"]["time"].values[0]
        return {"image_line_time": str(img), "attitude_time": str(att), "reproduced": bool(np.datetime64(img, "ns") != np.datetime64(att, "ns"))}

    line = {"sensor_acquisition_date": {"year": year, "day_of_year": doy, "milliseconds": ms}}
    ov = {"attitude": {"data_points": [{"time": {"day_of_year": doy, "millisecond_of_day": ms}}]},
          "platform_position": {"datetime_of_first_point": {"date": f"{year}   1   1", "day_of_year": 1, "seconds_of_day": 0.0}}}
    return api.with_product(run, level="1.5", n=2, p=3, pols=("HH",), image_kw={"line": line}, leader_kw={"n_att": 1, "overrides": ov})


def att_const_ok(year_idx: int, doy: int, ms: int, doy2: int, ms2: int) -> bool:
    """
    pre: 0 <= year_idx < 36 and 1 <= doy <= 366 and 0 <= ms < 86400000 and 1 <= doy2 <= 366 and 0 <= ms2 < 86400000
    post: _
    """
    ok = True
    for i, y in enumerate(YEARS):
        if i == year_idx:
            a = _att_diff(y, doy, ms)
            b = _att_diff(y, doy2, ms2)
            c = _att_diff(YEARS[0], doy, ms)
            ok = ok & (a[0] == b[0]) & (a[1] == b[1]) & (a[0] == a[1]) & (a[0] == c[0])
    return ok


# ---- the LIVE microsecond adapter of the level 1.1 line record: its result depends on the current line only (no state kept between calls)


def _live_ydus():
    from ceos_alos2.sar_image.signal_data import signal_data_record

    found = []

    def walk(con):
        if isinstance(con, D.DatetimeYdus):
            found.append(con)
        for sub in getattr(con, "subcons", []) or []:
            walk(sub)
        if hasattr(con, "subcon"):
            walk(con.subcon)

    walk(signal_data_record)
    return found


LIVE_YDUS = _live_ydus()
ALL_PAIRS = bool(__import__("json").loads(__import__("os").environ.get("VH_PARAMS") or "{}").get("all_pairs"))


def ydus_live_ok(us1: int, us2: int, i: int, j: int) -> bool:
    """
    pre: 0 <= us1 < 86400000000 and 0 <= us2 < 86400000000 and 0 <= i < len(REFS) and 0 <= j < len(REFS)
    pre: ALL_PAIRS or j == (i + 1) % len(REFS)
    post: _
    """
    ok = len(LIVE_YDUS) >= 1
    for ad in LIVE_YDUS:
        # two consecutive lines (or files) with different acquisition dates through the same adapter object
        for (k, us) in ((i, us1), (j, us2), (i, us2)):
            ctx = {"sensor_acquisition_date": REF_OBJS[k]}
            ctx = type("Ctx", (dict,), {"__getattr__": dict.__getitem__})(ctx)
            got = ad._decode(us, ctx, None)
            r = REFS[k]
            ok = ok & (_us_since_epoch(got) == _days_from_civil(r[0], r[1], r[2]) * 86400 * 10**6 + us)
    return ok
