"""C08: the JSON index codec on symbolic values.  Real encoders/decoders (encode_hierarchy ... preprocess | postprocess ...
decode_hierarchy) run with `np` replaced by the integer model vlib.npshim and `json` by the structural contract vlib.jsonc, so
element values, reference instants and attribute leaves stay symbolic ints for the solver."""
import json
import os

from ceos_alos2.hierarchy import Group, Variable
from ceos_alos2.sar_image import caching as C
from ceos_alos2.sar_image.caching import decoders as DEC
from ceos_alos2.sar_image.caching import encoders as ENC
from vlib.jsonc import JsonStub
from vlib.npshim import NAT, NP, Arr, same

P = json.loads(os.environ.get("VH_PARAMS") or "{}")
UNITS = P.get("units", ["ns", "us", "ms", "s", "D"])
SHAPES = [tuple(s) for s in P.get("shapes", [[], [1], [3], [2, 2], [4]])]
KIND = P.get("kind", "M")
LIM = 2**62 - 1  # |x - reference| stays below 2**63, so the difference never wraps onto the NaT pattern


class Shims:
    def __enter__(self):
        self.saved = (ENC.np, DEC.np, C.json)
        ENC.np = DEC.np = NP
        C.json = JsonStub(100)
        return self

    def __exit__(self, *a):
        ENC.np, DEC.np, C.json = self.saved
        return False


def _through_json(encoded):
    text = C.json.dumps(ENC.preprocess(encoded))
    return C.json.loads(text, object_hook=DEC.postprocess)


def _roundtrip(obj):
    """the repository's own encode -> text -> decode (caching.encode / caching.decode), with the document required to be pure ASCII:
    it is written with write_text() and read with read_text() / bytes.decode() in whatever locale the reading process has"""
    text = C.encode(obj)
    if not text.doc.ascii_only:
        raise AssertionError("the index document contains non-ASCII characters: not self-contained text for a process with another default encoding")
    return C.decode(text, records_per_chunk=1)


def _valid(v):
    return (v == NAT) | ((-LIM <= v) & (v <= LIM))


def time_ok(x0: int, x1: int, x2: int, x3: int, unit_idx: int) -> bool:
    """
    pre: 0 <= unit_idx < len(UNITS)
    pre: (x0 == NAT or -LIM <= x0 <= LIM) and (x1 == NAT or -LIM <= x1 <= LIM) and (x2 == NAT or -LIM <= x2 <= LIM) and (x3 == NAT or -LIM <= x3 <= LIM)
    post: _
    """
    unit = UNITS[unit_idx]
    vals = [x0, x1, x2, x3]
    ok = True
    with Shims():
        for shape in SHAPES:
            n = 1
            for s in shape:
                n *= s
            dt = ("datetime64[%s]" if KIND == "M" else "timedelta64[%s]") % unit
            a = Arr(dt, shape, vals[:n])
            enc = ENC.encode_array(a)
            back = DEC.decode_array(_through_json(enc), records_per_chunk=1)
            ok = ok & same(a, back)
            # the document holds plain JSON scalars only and names the unit
            ok = ok & (enc["encoding"]["units"] == unit) & (enc["dtype"] == dt)
    return ok


def ints_ok(x0: int, x1: int, x2: int, x3: int, b0: bool, b1: bool) -> bool:
    """
    pre: -2**63 <= x0 < 2**63 and -2**63 <= x1 < 2**63 and 0 <= x2 < 2**16 and 0 <= x3 < 2**32
    post: _
    """
    ok = True
    with Shims():
        cases = [Arr("int64", (2,), [x0, x1]), Arr("int64", (), [x0]), Arr("int64", (2, 1), [x1, x0]), Arr("uint16", (1,), [x2]), Arr("uint32", (1, 1), [x3]),
                 Arr("int32", (1,), [x3 - 2**31]), Arr("bool", (2,), [b0, b1]), Arr("bool", (), [b1])]
        for a in cases:
            back = DEC.decode_array(_through_json(ENC.encode_array(a)), records_per_chunk=1)
            ok = ok & same(a, back)
        # plain python lists (what the reader produces) come back as arrays of the same values, rank and kind
        for lst, dt in (([x0, x1], "int64"), ([[x0], [x1]], "int64"), ([b0, b1], "bool"), ([], "float64")):
            back = DEC.decode_array(_through_json(ENC.encode_array(lst)), records_per_chunk=1)
            ok = ok & same(NP.asarray(lst), back) & (str(back.dtype) == dt)
    return ok


FLOATS = [0.0, -0.0, 1.5, -2.5e-300, 1e308, float("inf"), float("-inf"), float("nan"), 0.1]
STRS = ["", "m", "1e-6 °", "éé中", 'q"uo\\te', " pad "]


def _same_float_lists(a, b):
    return repr(a) == repr(b)  # distinguishes -0.0 / nan / inf exactly


def floats_strs_ok(i: int, j: int) -> bool:
    """
    pre: 0 <= i < len(FLOATS) and 0 <= j < len(STRS)
    post: _
    """
    with Shims():
        a = Arr("float64", (3,), [FLOATS[i], FLOATS[(i + 1) % len(FLOATS)], FLOATS[(i + 4) % len(FLOATS)]])
        back = DEC.decode_array(_through_json(ENC.encode_array(a)), records_per_chunk=1)
        ok = (str(back.dtype) == "float64") & (back.shape == (3,)) & _same_float_lists(a.flat, back.flat)
        lst = [STRS[j], STRS[(j + 1) % len(STRS)]]
        back = DEC.decode_array(_through_json(ENC.encode_array(lst)), records_per_chunk=1)
        ok = ok & (back.dtype.kind == "U") & (back.flat == lst) & (back.shape == (2,))
    return ok


def _mk_tree(shape, a, b, c, flag):
    """attribute trees with tuples / lists / dicts nested in each other; leaves symbolic"""
    return [
        (a, b),
        [a, (b, c)],
        {"k": (a, [b, (c,)]), "l": [flag, None]},
        ((a, (b,)), {"x": (c, flag)}),
        {"valid_range": [a, b], "t": ()},
        [[], (), {}, ((),)],
        {"n": {"m": {"o": (a, b, c)}}},
    ][shape]


def _eq_typed(x, y):
    """equality that distinguishes tuple from list and bool from int"""
    if type(x) is tuple or type(y) is tuple or type(x) is list or type(y) is list:
        if isinstance(x, tuple) != isinstance(y, tuple) or isinstance(x, list) != isinstance(y, list) or len(x) != len(y):
            return False
        ok = True
        for u, v in zip(x, y):
            ok = ok & _eq_typed(u, v)
        return ok
    if isinstance(x, dict) or isinstance(y, dict):
        if not (isinstance(x, dict) and isinstance(y, dict)) or list(x) != list(y):
            return False
        ok = True
        for k in x:
            ok = ok & _eq_typed(x[k], y[k])
        return ok
    if isinstance(x, bool) != isinstance(y, bool):
        return False
    return x == y


def tuples_ok(shape: int, a: int, b: int, c: int, flag: bool) -> bool:
    """
    pre: 0 <= shape <= 6
    pre: -2**63 <= a < 2**63 and -2**63 <= b < 2**63
    post: _
    """
    with Shims():
        x = _mk_tree(shape, a, b, c, flag)
        back = _through_json({"attrs": x})["attrs"]
        ok = _eq_typed(x, back)
        # a variable's attrs and a group's attrs take the same route
        v = Variable(["rows"], [a, b], {"t": x})
        g = Group("p", None, {"v": v}, {"u": x})
        dec = _roundtrip(g)
        ok = ok & _eq_typed(dec.attrs["u"], x) & _eq_typed(dec["v"].attrs["t"], x)
    return ok


def _same_var(orig, dec):
    # dims come back as the same kind of sequence (a list stays a list, the () of a 0-d variable stays a tuple)
    if list(orig.dims) != list(dec.dims) or type(orig.dims) is not type(dec.dims) or not _eq_typed(orig.attrs, dec.attrs):
        return False
    want = NP.asarray(orig.data)
    return same(want, dec.data)


PATHS = ["HH_scan1", "", "/", "imagery/HH", "HV"]


def hierarchy_ok(t0: int, t1: int, t2: int, t3: int, nested: bool, empty: bool, with_time: bool, url_none: bool, path_idx: int) -> bool:
    """
    pre: -LIM <= t0 <= LIM and -LIM <= t1 <= LIM and -2**63 <= t2 < 2**63 and -2**63 <= t3 < 2**63
    pre: 0 <= path_idx < len(PATHS)
    post: _
    """
    with Shims():
        variables = {
            "rows": Variable("rows", [t2, t3], {}),
            "z": Variable(["rows"], [True, False], {"units": "1e-6 °", "valid_range": [t2, t3]}),
            "a": Variable(["rows", "cols"], [[t3], [t2]], {"formula": ("x", t3)}),
            "scalar": Variable((), t2, {}),
        }
        if with_time:
            variables["time"] = Variable(["rows"], Arr("datetime64[ns]", (2,), [t0, t1]), {"long_name": "t"})
            variables["dt"] = Variable(["rows"], Arr("timedelta64[ms]", (2,), [t1, t0]), {})
        inner = Group("inner/path", None, {} if empty else {"w": Variable(["p"], [t3], {"k": t2})}, {"i": t2})
        data = dict(variables)
        if nested:
            data["sub"] = inner
        attrs = {"coordinates": ["rows", "z"], "scan": (t2, [t3]), "s": "é"}
        if nested:
            g = Group(PATHS[path_idx], None if url_none else "memory://u", data, attrs)
        else:
            # open_image names the (flat) image group after construction; the name may be empty: no polarisation, no scan
            g = Group("placeholder", None if url_none else "memory://u", data, attrs)
            g.path = PATHS[path_idx]
        dec = _roundtrip(g)
        ok = isinstance(dec, Group) & (dec.path == g.path) & (dec.url == g.url) & (list(dec.data) == list(g.data)) & _eq_typed(dec.attrs, g.attrs)
        for name, var in variables.items():
            ok = ok & isinstance(dec[name], Variable) & _same_var(g[name], dec[name])
        if nested:
            sub, osub = dec["sub"], g["sub"]
            ok = ok & isinstance(sub, Group) & (sub.path == osub.path) & (sub.url == osub.url) & _eq_typed(sub.attrs, osub.attrs)
            ok = ok & (list(sub.data) == list(osub.data))
            if not empty:
                ok = ok & _same_var(osub["w"], sub["w"])
        # a lone variable and a non-hierarchy value pass through encode_hierarchy/decode_hierarchy as documented
        v = DEC.decode_hierarchy(_through_json(ENC.encode_hierarchy(variables["a"])), records_per_chunk=1)
        ok = ok & _same_var(variables["a"], v)
    return ok
