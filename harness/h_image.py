"""CrossHair harnesses over the real image reader: sar_image.io (metadata pass) and array.Array (lazy loads).

Symbolic: header length H, record length L, file size, slice start/stop, row lists.
Concrete (enumerated inside the body, from VH_PARAMS): line count n, records_per_chunk rpc, step, columns m.
Library boundaries replaced by vlib.env contract stubs; every repository function runs unmodified.
"""
import json
import os
from typing import List

import numpy as np

from ceos_alos2 import array as A
from ceos_alos2.sar_image import io as IO
from vlib.env import Obj, Preamble, RecStruct, Rows, Span, SpanFile, StubFS, stub_stack

P = json.loads(os.environ.get("VH_PARAMS") or "{}")
NS = P.get("ns", [0, 1, 2, 3])
RPCS = P.get("rpcs", [1, 2, 3, 4])
RTYPE = P.get("rtype", 10)
N = P.get("n", 3)
M = P.get("m", 3)
MAXROWS = P.get("maxrows", 3)
STEPS = P.get("steps", [None, 1, 2])
RPC = P.get("rpc", 2)
BPS = 2
LREC = P.get("L", 16)


class FDStub:
    """stands for sar_image.file_descriptor_record (construct): needs 720 bytes, yields the two counts"""

    def __init__(self, n, L):
        self.n, self.L = n, L

    def parse(self, content):
        if len(content) < 720:
            raise EOFError("stream read less than specified amount")
        return Obj(number_of_sar_data_records=self.n, sar_data_record_length=self.L)


_IO_ORIG = {k: getattr(IO, k) for k in ("file_descriptor_record", "record_preamble", "record_types")}


def _patch_io(n, H, L):
    IO.file_descriptor_record = FDStub(n, L)
    IO.record_preamble = Preamble(RTYPE)
    IO.record_types = {k: RecStruct(H, L) for k in _IO_ORIG["record_types"]}


def _unpatch_io():
    for k, v in _IO_ORIG.items():
        setattr(IO, k, v)


def _meta_case(n, rpc, H, L, types=None, rtype=None):
    """types: {record type code: prefix length} of a process that reads files of several record types; rtype: the type of THIS file"""
    size = 720 + n * L
    log = []
    f = SpanFile(size, log, tag="IMG")
    _patch_io(n, H, L)
    if types is not None:
        IO.record_preamble = Preamble(rtype)
        IO.record_types = {k: RecStruct(h, L) for k, h in types.items()}
    try:
        header, md = IO.read_metadata(f, rpc)
    finally:
        _unpatch_io()
    ok = len(md) == n
    for i, m in enumerate(md):
        ok = ok & (m["data"]["start"] == 720 + i * L + H) & (m["data"]["stop"] == 720 + (i + 1) * L)
        ok = ok & (m["record_start"] == m["origin"])  # every record is parsed from its own bytes
    # I/O pattern (C11): descriptor first, then <= ceil(n/rpc) sequential reads that tile the file
    reads = [e for e in log if e[0] == "read"]
    ok = ok & (len(reads) >= 1) & (reads[0][2] == 0) & (reads[0][3] == 720)
    ok = ok & (len(reads) - 1 <= (n + rpc - 1) // rpc)
    ok = ok & (len([e for e in log if e[0] == "seek"]) == 0)
    pos = 720
    for e in reads[1:]:
        ok = ok & (e[2] == pos) & (e[3] > 0) & (e[2] + e[3] <= size) & (e[3] <= rpc * L)
        pos = e[2] + e[3]
    return ok & (pos == size)


def meta_ok(H: int, L: int) -> bool:
    """
    pre: 12 <= H < L
    post: _
    """
    ok = True
    for n in NS:
        for rpc in RPCS:
            ok = ok & _meta_case(n, rpc, H, L)
    return ok


def meta_seq_ok(H1: int, H2: int, L: int) -> bool:
    """
    pre: 12 <= H1 < L and 12 <= H2 < L
    post: _
    """
    # one process reads a file of record type 10 (prefix H1), then one of type 11 (prefix H2) with the SAME record length and line
    # count, then type 10 again: every file is indexed with the prefix of its own record type (nothing remembered between files)
    ok = True
    types = {10: H1, 11: H2}
    for n in NS:
        for rpc in RPCS:
            ok = ok & _meta_case(n, rpc, H1, L, types, 10) & _meta_case(n, rpc, H2, L, types, 11) & _meta_case(n, rpc, H1, L, types, 10)
    return ok


def _trunc_case(n, rpc, H, L, size):
    log = []
    f = SpanFile(size, log, tag="IMG")
    _patch_io(n, H, L)
    raised = False
    md = []
    try:
        header, md = IO.read_metadata(f, rpc)
    except (ValueError, EOFError):
        raised = True
    finally:
        _unpatch_io()
    reads = [e for e in log if e[0] == "read"]
    # prompt termination: nothing is requested after the first request that came back short
    short = [i for i, e in enumerate(reads) if e[2] + e[3] > size]
    prompt = (len(short) == 0) or (short[0] >= len(reads) - 2)
    if raised:
        return prompt
    # returned: then it must not pretend to have all n lines (xarray's dimension check then raises, see C18.dim)
    return (len(md) < n) & prompt


def trunc_ok(H: int, size: int) -> bool:
    """
    pre: 12 <= H < LREC
    pre: 0 <= size < 720 + N * LREC
    post: _
    """
    # the record length is concrete here: `len(content) // element_size` with both symbolic is nonlinear
    ok = True
    for rpc in RPCS:
        ok = ok & _trunc_case(N, rpc, H, LREC, size)
    return ok


# ------------------------------------------------------------------------------------------ Array loads

_A_ORIG = (A.parse_data, A.np)


class _NP:
    """numpy with stack/array replaced by positional stand-ins (rows stay abstract spans)"""

    def __init__(self, stack):
        self.stack = stack

    def __getattr__(self, k):
        return getattr(np, k)

    @staticmethod
    def array(x, *a, **k):
        return list(x)


def _parse_stub(part, type_code):
    """positional stand-in for parse_data on abstract spans; real bytes (e.g. b"") go to the real function"""
    if isinstance(part, Span):
        return part
    return _A_ORIG[0](part, type_code)


class Out(Rows):
    def __getitem__(self, k):
        return self


def _mk_array(n, H, L, rpc, m=None, stack=None):
    br = [(720 + i * L + H, 720 + (i + 1) * L) for i in range(n)]
    fs = StubFS({"IMG": 720 + n * L})
    A.parse_data = _parse_stub
    A.np = _NP(stack or (lambda parts, axis=0: Out(stub_stack(parts))))
    arr = A.Array(fs=fs, url="IMG", byte_ranges=br, shape=(n, m if m is not None else (L - H) // 2), dtype="uint16",
                  type_code="IU2", records_per_chunk=rpc)
    return br, fs, arr


def _io_ok(fs, arr, n, L, rows):
    """C11: one open of the array's own url; one read per touched group of rpc' lines, inside the group and the file"""
    rpcn = arr.records_per_chunk
    touched = []
    for r in rows:
        c = r // rpcn
        if c not in touched:
            touched.append(c)
    opens = [e for e in fs.log if e[0] == "open"]
    reads = [e for e in fs.log if e[0] == "read"]
    seeks = [e for e in fs.log if e[0] == "seek"]
    ok = (len(opens) <= 1) & (len(reads) == len(touched)) & (len(seeks) == len(touched))
    if len(touched) > 0:
        ok = ok & (len(opens) == 1)
    for e in opens:
        ok = ok & (e[1] == "IMG")
    size = 720 + n * L
    for e, c in zip(reads, touched):
        lo = 720 + c * rpcn * L
        hi = 720 + min((c + 1) * rpcn, n) * L
        ok = ok & (e[2] >= lo) & (e[3] >= 0) & (e[2] + e[3] <= hi) & (e[2] + e[3] <= size)
    return ok


def _rows_case(n, rpc, H, L, rows):
    try:
        br, fs, arr = _mk_array(n, H, L, rpc)
        out = arr[(list(rows), slice(None))]
    finally:
        A.parse_data, A.np = _A_ORIG
    ok = len(out) == len(rows)
    for part, r in zip(out, rows):
        # the bytes of THIS array's file on THIS filesystem (not of a same-named file seen earlier in the process)
        ok = ok & (part.lo == br[r][0]) & (part.hi == br[r][1]) & (part.tag == "IMG") & (getattr(part, "origin", None) == fs.uid)
    return ok & _io_ok(fs, arr, n, L, rows)


def rows_ok(H: int, L: int, rows: List[int]) -> bool:
    """
    pre: 0 < H < L
    pre: 1 <= len(rows) <= MAXROWS
    pre: all(0 <= r < N for r in rows)
    pre: all(rows[i] < rows[i+1] for i in range(len(rows)-1)) or all(rows[i] > rows[i+1] for i in range(len(rows)-1))
    post: _
    """
    ok = True
    for rpc in RPCS:
        ok = ok & _rows_case(N, rpc, H, L, rows)
    return ok




class Mat:
    """stand-in for the stacked ndarray.  Rows are spans; indexing follows numpy basic indexing written with
    python range semantics (ints drop the axis, slices keep it) - the column axis is delegated to numpy by
    the real code as well.  Result: (shape, matrix of absolute byte positions)."""

    def __init__(self, rows, m):
        self.rows, self.m = rows, m

    def __getitem__(self, key):
        rk, ck = key
        rows = self.rows[rk] if isinstance(rk, slice) else [self.rows[rk]]
        cols = list(range(self.m)[ck]) if isinstance(ck, slice) else [range(self.m)[ck]]
        shape = ((len(rows),) if isinstance(rk, slice) else ()) + ((len(cols),) if isinstance(ck, slice) else ())
        return shape, [[r.lo + c * BPS for c in cols] for r in rows], [getattr(r, "origin", None) for r in rows]


class Empty:
    """what a correct backend returns for an empty row selection: numpy's empty (0, m) array, column-indexed"""


def _basic_case(n, m, rpc, H, rk, ck):
    L = H + m * BPS
    try:
        br, fs, arr = _mk_array(n, H, L, rpc, m=m, stack=lambda parts, axis=0: Mat(list(stub_stack(parts)), m))
        got = arr[(rk, ck)]
    finally:
        A.parse_data, A.np = _A_ORIG
    rsel = list(range(n)[rk]) if isinstance(rk, slice) else [range(n)[rk]]
    csel = list(range(m)[ck]) if isinstance(ck, slice) else [range(m)[ck]]
    shape = ((len(rsel),) if isinstance(rk, slice) else ()) + ((len(csel),) if isinstance(ck, slice) else ())
    want = [[720 + r * L + H + c * BPS for c in csel] for r in rsel]
    if isinstance(got, np.ndarray):  # a real (empty) ndarray is the only thing the backend can build without reading
        return (len(rsel) == 0) & (got.shape == shape)
    if not isinstance(got, tuple):
        return False
    fresh_bytes = all(o == fs.uid for o in got[2])  # read from this array's own filesystem, not remembered from an earlier one
    return (got[0] == shape) & (got[1] == want) & fresh_bytes & _io_ok(fs, arr, n, L, rsel)


def _seq_case(n, m, rpc, H, keys):
    """several selections on ONE opened array, in sequence: each equals what it gives on a freshly opened array (no state carried over)"""
    L = H + m * BPS
    ok = True
    try:
        br, fs, arr = _mk_array(n, H, L, rpc, m=m, stack=lambda parts, axis=0: Mat(list(stub_stack(parts)), m))
        for rk, ck in keys:
            del fs.log[:]
            got = arr[(rk, ck)]
            rsel = list(range(n)[rk]) if isinstance(rk, slice) else [range(n)[rk]]
            csel = list(range(m)[ck]) if isinstance(ck, slice) else [range(m)[ck]]
            shape = ((len(rsel),) if isinstance(rk, slice) else ()) + ((len(csel),) if isinstance(ck, slice) else ())
            want = [[720 + r * L + H + c * BPS for c in csel] for r in rsel]
            if isinstance(got, np.ndarray):
                ok = ok & (len(rsel) == 0) & (got.shape == shape)
            elif not isinstance(got, tuple):
                ok = False
            else:
                ok = ok & (got[0] == shape) & (got[1] == want) & _io_ok(fs, arr, n, L, rsel)
    finally:
        A.parse_data, A.np = _A_ORIG
    return ok


def basic_seq_ok(k1: int, k2: int, stop: int, H: int) -> bool:
    """
    pre: 0 <= k1 < N and 0 <= k2 < N and 0 <= stop <= N
    pre: 0 < H
    post: _
    """
    return _seq_case(N, M, RPC, H, [(k1, slice(None)), (k2, slice(None)), (slice(0, stop), slice(None)), (slice(None), slice(None)), (k1, slice(None))])


def basic_slice_ok(start: int, stop: int, H: int) -> bool:
    """
    pre: -(N + 2) <= start <= N + 2
    pre: -(N + 2) <= stop <= N + 2
    pre: 0 < H
    post: _
    """
    ok = True
    for step in STEPS:
        ok = ok & _basic_case(N, M, RPC, H, slice(start, stop, step), slice(None))
    return ok


def basic_open_slice_ok(bound: int, H: int) -> bool:
    """
    pre: -(N + 2) <= bound <= N + 2
    pre: 0 < H
    post: _
    """
    ok = True
    for step in STEPS:
        ok = ok & _basic_case(N, M, RPC, H, slice(bound, None, step), slice(None))
        ok = ok & _basic_case(N, M, RPC, H, slice(None, bound, step), slice(0, M, 1))
    ok = ok & _basic_case(N, M, RPC, H, slice(None), slice(None))
    return ok


def basic_int_ok(cstart: int, cstop: int, H: int) -> bool:
    """
    pre: -(M + 1) <= cstart <= M + 1
    pre: -(M + 1) <= cstop <= M + 1
    pre: 0 < H
    post: _
    """
    ok = _basic_case(N, M, RPC, H, slice(None), slice(cstart, cstop))
    for k in sorted({0, N - 1, -1, -N}):
        ok = ok & _basic_case(N, M, RPC, H, k, slice(cstart, cstop))
    return ok


def basic_intcol_ok(H: int) -> bool:
    """
    pre: 0 < H
    post: _
    """
    ok = True
    for c in range(-M, M):
        for k in range(-N, N):
            ok = ok & _basic_case(N, M, RPC, H, k, c)
            ok = ok & _basic_case(N, M, RPC, H, slice(k, None), c)
            ok = ok & _basic_case(N, M, RPC, H, slice(None, k, 2), c)
    return ok


def api_replay_basic_slice_ok(start, stop, H):
    from vlib import api

    out = [api.indexing(N, M, RPC, slice(start, stop, step), slice(None)) for step in STEPS]
    return {"reproduced": any(o["reproduced"] for o in out), "runs": out}


def api_replay_basic_open_slice_ok(bound, H):
    from vlib import api

    out = []
    for step in STEPS:
        out.append(api.indexing(N, M, RPC, slice(bound, None, step), slice(None)))
        out.append(api.indexing(N, M, RPC, slice(None, bound, step), slice(0, M, 1)))
    return {"reproduced": any(o["reproduced"] for o in out), "runs": out}


def api_replay_basic_int_ok(cstart, cstop, H):
    from vlib import api

    out = [api.indexing(N, M, RPC, slice(None), slice(cstart, cstop))]
    out += [api.indexing(N, M, RPC, k, slice(cstart, cstop)) for k in sorted({0, N - 1, -1, -N})]
    return {"reproduced": any(o["reproduced"] for o in out), "runs": [o for o in out if o["reproduced"]][:4]}


def api_replay_basic_intcol_ok(H):
    from vlib import api

    out = []
    for c in range(-M, M):
        for k in range(-N, N):
            out += [api.indexing(N, M, RPC, k, c), api.indexing(N, M, RPC, slice(k, None), c), api.indexing(N, M, RPC, slice(None, k, 2), c)]
    return {"reproduced": any(o["reproduced"] for o in out), "runs": [o for o in out if o["reproduced"]][:4]}



# ------------------------------------------------------------------------------- open_image -> Array -> load

import fsspec.implementations.dirfs as _DFS  # noqa: E402

import ceos_alos2.sar_image as SI  # noqa: E402

IMGNAME = P.get("imgname", "IMG-HH-ALOS2290760600-191011-WBDR1.5GUD")
TYPE_CODE = P.get("type_code", "IU2")


class StubMapper(dict):
    def __init__(self, root, fs):
        super().__init__()
        self.root, self.fs = root, fs


def _section_fields():
    from ceos_alos2.sar_image.file_descriptor import file_descriptor_record

    for sc in file_descriptor_record.subcons:
        if sc.name == "sar_related_data_in_the_record":
            inner = sc
            while not hasattr(inner, "subcons"):
                inner = inner.subcon
            return [c.name for c in inner.subcons if c.name]
    return []


_SECTION_FIELDS = _section_fields()


class FDStubFull(FDStub):
    def __init__(self, n, L, lines, pixels, type_code):
        super().__init__(n, L)
        self.lines, self.pixels, self.type_code = lines, pixels, type_code

    def parse(self, content):
        o = super().parse(content)
        o["preamble"] = Obj(record_length=720)
        # every field of the real section is present: the ones the shape does not depend on are blank (-1) or arbitrary
        sec = {name: (-1 if k % 2 == 0 else 3 + k) for k, name in enumerate(_SECTION_FIELDS)}
        sec.update(number_of_lines_per_dataset=self.lines, number_of_data_groups_per_line=self.pixels, interleaving_id="BSQ")
        o["sar_related_data_in_the_record"] = Obj(**sec)
        o["prefix_suffix_data_locators"] = Obj(sar_data_format_type_code=self.type_code, maximum_data_range_of_pixel=-1,
                                               number_of_burst_data=-1, number_of_lines_per_burst=-1)
        o["scansar_burst_data_information"] = Obj(number_of_overlap_lines_with_adjacent_bursts=-1)
        return o


def _open_case(n, rpc, H, L, pixels):
    inner = StubFS({"/prod/" + IMGNAME: 720 + n * L})
    made = []

    class DirFS(StubFS):
        def __init__(self, path=None, fs=None):
            super().__init__({IMGNAME: 720 + n * L}, path=path)
            self.fs = fs
            made.append(self)

    mapper = StubMapper("/prod", inner)
    orig_dfs = _DFS.DirFileSystem
    _DFS.DirFileSystem = DirFS
    _patch_io(n, H, L)
    # scaling: the built-in default request size (1024 lines) is shrunk to 1 so that a call which loses its records_per_chunk on the
    # way down becomes visible at the small line counts enumerated here (the default is never used when the option is threaded)
    orig_defaults = IO.read_metadata.__defaults__
    IO.read_metadata.__defaults__ = (1,)
    IO.file_descriptor_record = FDStubFull(n, L, n, pixels, TYPE_CODE)
    A.parse_data = lambda part, type_code: (part, type_code) if isinstance(part, Span) else _A_ORIG[0](part, type_code)
    A.np = _NP(lambda parts, axis=0: Out(stub_stack(parts)))
    try:
        group = SI.open_image(mapper, IMGNAME, use_cache=False, create_cache=False, records_per_chunk=rpc)
        var = group["data"]
        arr = var.data
        ok = (len(made) == 1) & (arr.fs is made[0]) & (made[0].path == "/prod") & (made[0].fs is inner)
        ok = ok & (arr.url == IMGNAME) & (arr.type_code == TYPE_CODE) & (list(var.dims) == ["rows", "columns"])
        ok = ok & (arr.shape == (n, pixels)) & (arr.records_per_chunk == (rpc if rpc <= n else n))
        ok = ok & (arr.byte_ranges == [(720 + i * L + H, 720 + (i + 1) * L) for i in range(n)])
        # the metadata pass used exactly one open of this image and nothing else
        opens = [e for e in made[0].log if e[0] == "open"]
        ok = ok & (len(opens) == 1) & (opens[0][1] == IMGNAME) & (len(inner.log) == 0)
        # ... and at most ceil(n / rpc) requests after the descriptor, with THIS call's rpc
        reads = [e for e in made[0].log if e[0] == "read"]
        ok = ok & (len(reads) - 1 <= (n + rpc - 1) // rpc) & (len(reads) >= 1)
        if n > 0:
            made[0].log.clear()
            out = arr[(slice(None), slice(None))]
            ok = ok & (len(out) == n)
            for i, part in enumerate(out):
                ok = ok & (part[0].lo == 720 + i * L + H) & (part[0].hi == 720 + (i + 1) * L) & (part[1] == TYPE_CODE)
                ok = ok & (part[0].tag == IMGNAME)
            ok = ok & ([e[1] for e in made[0].log if e[0] == "open"] == [IMGNAME])
        return ok
    finally:
        _unpatch_io()
        IO.read_metadata.__defaults__ = orig_defaults
        A.parse_data, A.np = _A_ORIG
        _DFS.DirFileSystem = orig_dfs


def open_ok(H: int, L: int, pixels: int) -> bool:
    """
    pre: 12 <= H < L
    pre: pixels >= 1
    post: _
    """
    ok = True
    for n in NS:
        for rpc in RPCS:
            ok = ok & _open_case(n, rpc, H, L, pixels)
    return ok


def sel_ok(start: int, stop: int) -> bool:
    """
    pre: -(N + 2) <= start <= N + 2
    pre: -(N + 2) <= stop <= N + 2
    post: _
    """
    br = [(100 + 10 * i, 100 + 10 * i + 7) for i in range(N)]
    ok = True
    for step in STEPS + [-1, -2]:
        for key in (slice(start, stop, step), slice(start, None, step), slice(None, stop, step)):
            got = A.compute_selected_ranges(br, key)
            ok = ok & (got == [(i, br[i]) for i in range(N)[key]])
    for k in range(-N, N):
        ok = ok & (A.compute_selected_ranges(br, k) == [(range(N)[k], br[k])])
    return ok


def api_replay_trunc_ok(H, size):
    """truncate a synthesised image at the corresponding place and open it through open_alos2"""
    import os

    import ceos_alos2
    from vlib import api

    out = []
    for rpc in RPCS:
        def run(root, datas, rpc=rpc):
            name = next(iter(datas))
            path = os.path.join(root, name)
            Lreal = 192 + 2 * 5
            if size < 720:
                cut = size
            else:
                q, r = divmod(size - 720, LREC)
                cut = 720 + q * Lreal + (0 if r == 0 else min(max(r * Lreal // LREC, 1), Lreal - 1))
            with open(path, "r+b") as f:
                f.truncate(cut)
            try:
                tree = ceos_alos2.open_alos2(root, backend_options={"use_cache": False, "records_per_chunk": rpc})
            except Exception as e:  # noqa: BLE001
                return {"rpc": rpc, "cut": cut, "raised": type(e).__name__, "reproduced": False}
            return {"rpc": rpc, "cut": cut, "returned_shape": list(tree["imagery/HH/data"].shape), "reproduced": True}

        out.append(api.with_product(run, level="1.5", n=N, p=5, pols=("HH",)))
    return {"reproduced": any(o["reproduced"] for o in out), "runs": out}


# ------------------------------------------------------------------------------- open_image on a truncated image (C18)


def _trunc_open_case(n, rpc, H, L, size, pixels):
    class DirFS(StubFS):
        def __init__(self, path=None, fs=None):
            super().__init__({IMGNAME: size}, path=path)
            self.fs = fs

    mapper = StubMapper("/prod", StubFS({}))
    orig_dfs = _DFS.DirFileSystem
    _DFS.DirFileSystem = DirFS
    _patch_io(n, H, L)
    IO.file_descriptor_record = FDStubFull(n, L, n, pixels, TYPE_CODE)
    A.np = _NP(lambda parts, axis=0: Out(stub_stack(parts)))
    try:
        try:
            group = SI.open_image(mapper, IMGNAME, use_cache=False, create_cache=False, records_per_chunk=rpc)
        except (ValueError, EOFError):
            return True  # fail-stop
        # returned although the file is short: then the tree must be inconsistent in a way the Dataset constructor rejects -
        # the image variable keeps the header-declared line count while the per-line variables have fewer entries
        arr = group["data"].data
        lines = [len(v.data) for k, v in group.variables.items() if k != "data"]
        return (arr.shape[0] == n) & (len(lines) > 0) & all(m < n for m in lines) & (list(group["data"].dims) == ["rows", "columns"])
    finally:
        _unpatch_io()
        A.np = _A_ORIG[1]
        _DFS.DirFileSystem = orig_dfs


def trunc_open_ok(H: int, size: int, pixels: int) -> bool:
    """
    pre: 12 <= H < LREC and pixels >= 1
    pre: 720 <= size < 720 + N * LREC
    post: _
    """
    ok = True
    for rpc in RPCS:
        ok = ok & _trunc_open_case(N, rpc, H, LREC, size, pixels)
    return ok


api_replay_trunc_open_ok = lambda H, size, pixels: api_replay_trunc_ok(H, size)  # noqa: E731
