"""C14: summary aggregation and section transformers on symbolic inputs (the line grammar itself is decided by engine R in props/c14.py)."""
import json
import os
from typing import List

from ceos_alos2 import decoders as DEC
from ceos_alos2 import summary as S

P = json.loads(os.environ.get("VH_PARAMS") or "{}")
MAXLINES = P.get("maxlines", 3)
PERMS3 = [[0, 1, 2], [0, 2, 1], [1, 0, 2], [1, 2, 0], [2, 0, 1], [2, 1, 0]]

try:
    ExceptionGroup
except NameError:  # pragma: no cover
    from exceptiongroup import ExceptionGroup


def _numbers(eg):
    out = []
    for e in eg.exceptions:
        head = e.args[0].split(":")[0]
        out.append(int(head[len("line "):]))
    return out


def agg_ok(valid: List[bool], lead: int, trail: int, crlf: bool, final_newline: bool) -> bool:
    """
    pre: 1 <= len(valid) <= MAXLINES and 0 <= lead <= 2 and 0 <= trail <= 1
    post: _
    """
    # lines L0..Lk with symbolic validity, preceded / followed by blank (malformed) lines; LF or CRLF; with or without a final newline
    body = [f"L{i}" for i in range(len(valid))]
    lines = [""] * lead + body + [" "] * trail

    def parse_line(line):
        if not line.startswith("L") or not valid[int(line[1:])]:
            raise ValueError("invalid line")
        i = int(line[1:])
        return {"section": ("Pds", "Scs", "Img")[i % 3], "keyword": f"k{i}", "value": f"v{i}"}

    saved = S.parse_line
    S.parse_line = parse_line
    sep = "\r\n" if crlf else "\n"
    content = sep.join(lines) + (sep if final_newline else "")
    if trail == 0 and lead + len(body) > 0 and not final_newline:
        pass
    bad = [i for i, ln in enumerate(lines) if (not ln.startswith("L")) or (not valid[int(ln[1:])])]
    if final_newline and trail > 0 and False:
        pass
    try:
        try:
            got = S.parse_summary(content)
        finally:
            S.parse_line = saved
    except ExceptionGroup as eg:
        nums = _numbers(eg)
        return (len(bad) > 0) & ((nums == bad) | (nums == [b + 1 for b in bad])) & (len(eg.exceptions) == len(bad))
    if bad:
        return False
    want = {}
    for i in range(len(valid)):
        want.setdefault(("pds", "scs", "img")[i % 3], {})[f"k{i}"] = f"v{i}"
    return got == want


def order_ok(perm: int, a: str, b: str, c: str) -> bool:
    """
    pre: 0 <= perm < 6 and len(a) <= 2 and len(b) <= 2 and len(c) <= 2
    post: _
    """
    # the merged mapping does not depend on the order of the lines (within and across sections); values are arbitrary texts
    entries = [{"section": "Pds", "keyword": "x", "value": a}, {"section": "Scs", "keyword": "y", "value": b}, {"section": "Pds", "keyword": "z", "value": c}]
    table = {f"E{i}": e for i, e in enumerate(entries)}
    saved = S.parse_line
    S.parse_line = lambda line: dict(table[line])
    try:
        got = S.parse_summary("\n".join(f"E{i}" for i in PERMS3[perm]))
    finally:
        S.parse_line = saved
    ok = (sorted(got) == ["pds", "scs"]) & (sorted(got["pds"]) == ["x", "z"]) & (sorted(got["scs"]) == ["y"])
    return ok & (got["pds"]["x"] == a) & (got["pds"]["z"] == c) & (got["scs"]["y"] == b)


class Tok:
    def __init__(self, kind, s):
        self.kind, self.s = kind, s

    def __eq__(self, o):
        return isinstance(o, Tok) and self.kind == o.kind and self.s == o.s

    def __hash__(self):
        return 0


def _with_stubs(f):
    """int/float are CPython's parsers (the 'documented conversion' is which parser gets which text).  They are shadowed in the module
    namespace by token builders; code that binds the parsers elsewhere (tables built at import time) simply does not see the stand-ins,
    and `conv` below then compares with CPython's own result."""
    had = {k: (k in vars(S)) for k in ("int", "float")}
    S.int = lambda x: Tok("int", x)
    S.float = lambda x: Tok("float", x)
    try:
        return f()
    finally:
        for k, h in had.items():
            if not h:
                delattr(S, k)


def conv(got, kind, text):
    """`got` is the documented conversion of `text`: the stand-in token, or what CPython's parser returns for it"""
    if isinstance(got, Tok):
        return got == Tok(kind, text)
    want = int(text) if kind == "int" else float(text)
    return (type(got) is type(want)) & (got == want)


INTS = ["0", "7", "12", "-3", "007", " 5", "54"]
FLTS = ["1.5", "1e3", "-0.25", "10", " 2.5 ", "6.25E+01", "0"]


NUMS = [(INTS[i], INTS[(i + 3) % len(INTS)], FLTS[i]) for i in (1, 3, 4, 5)]  # (shift, zone, float) spellings, distinct per row


def sections_ok(inum: int, txt: str, date: str, rev: bool) -> bool:
    """
    pre: 0 <= inum < len(NUMS) and len(txt) <= 2 and len(date) == 8
    pre: all(ch in "0123456789" for ch in date)
    post: _
    """
    shift, zone, fl = NUMS[inum]

    def order(d):
        return dict(reversed(list(d.items()))) if rev else d

    def run():
        ok = True
        g = S.transform_ordering_info(order({"SceneId": txt, "Other": fl}))
        ok = ok & (g.attrs == {"SceneId": txt, "Other": fl}) & (len(g.data) == 0)
        g = S.transform_product_spec(order({"ResamplingMethod": "BL", "UTM_ZoneNo": zone, "MapDirection": txt, "OrbitDataPrecision": fl,
                                            "AttitudeDataPrecision": txt, "PixelSpacing": fl}))
        ok = ok & (g.attrs.get("ResamplingMethod") == "bilinear") & conv(g.attrs.get("UTM_ZoneNo"), "int", zone) & (g.attrs.get("MapDirection") == txt)
        ok = ok & (g.attrs.get("OrbitDataPrecision") == fl) & (g.attrs.get("AttitudeDataPrecision") == txt) & conv(g.attrs.get("PixelSpacing"), "float", fl)
        ok = ok & (len(g.attrs) == 6)
        g = S.transform_image_info(order({"SceneCenterDateTime": date + " 14:43:15.525", "OffNadirAngle": fl, "SceneStartDateTime": date + " 01:02:03.456"}))
        iso = date[:4] + "-" + date[4:6] + "-" + date[6:]
        ok = ok & (g.attrs.get("SceneCenterDateTime") == iso + "T14:43:15.525")
        ok = ok & conv(g.attrs.get("OffNadirAngle"), "float", fl) & (g.attrs.get("SceneStartDateTime") == iso + "T01:02:03.456")
        g = S.transform_autocheck(order({"PRF_Check": "", "Other_Check": txt}))
        ok = ok & (g.attrs == {"PRF_Check": "N/A", "Other_Check": txt if txt else "N/A"})
        g = S.transform_result_info(order({"PracticeResultCode": txt}))
        ok = ok & (g.attrs == {"PracticeResultCode": txt})
        g = S.transform_label_info(order({"Sensor": txt, "ObservationDate": date, "ProcessFacility": "EICS"}))
        ok = ok & (g.attrs.get("Sensor") == txt) & (g.attrs.get("ObservationDate") == iso) & (g.attrs.get("ProcessFacility") == DEC.processing_facilities["EICS"])
        g = S.transform_scene_spec(order({"SceneShift": shift}))
        ok = ok & (list(g.attrs) == ["SceneShift"]) & conv(g.attrs.get("SceneShift"), "int", shift)
        return ok

    return _with_stubs(run)


NAMES = ["VOL-X", "LED-X", "IMG-HH-X", "IMG-HV-X", "IMG-VV-X", "TRL-X"]
PERMS_PI = [[0, 1, 2, 3, 4, 5, 6, 7, 8, 9], [9, 8, 7, 6, 5, 4, 3, 2, 1, 0], [3, 0, 8, 1, 9, 2, 7, 4, 6, 5], [1, 0, 2, 3, 4, 5, 6, 7, 8, 9], [0, 1, 2, 4, 3, 5, 7, 6, 9, 8]]


COUNTS = [("7", "12", "54", "0"), ("0", "7", "007", " 5"), ("12", "12", "-3", "54"), (" 5", "0", "7", "7"), ("54", "007", "0", "12")]  # (px1, ln1, px2, ln2)


def product_info_ok(perm: int, icount: int, k: int) -> bool:
    """
    pre: 0 <= perm < len(PERMS_PI) and 3 <= k <= 6 and 0 <= icount < len(COUNTS)
    post: _
    """
    # file roles follow the NN numbering, shapes are (pixels, lines) per index - in ANY order of the lines
    px1, ln1, px2, ln2 = COUNTS[icount]
    items = [("CntOfL15ProductFileName", str(k))]
    items += [(f"L15ProductFileName{i + 1:02d}", (NAMES[:2] + NAMES[2:2 + k - 3] + NAMES[-1:])[i]) for i in range(k)]
    items += [("NoOfPixels_1", px1), ("NoOfLines_1", ln1), ("NoOfPixels_2", px2), ("NoOfLines_2", ln2), ("ProductFormat", "CEOS"), ("BitPixel", ln1), ("ProductDataSize", px2)]
    n = len(items)
    order = [i for i in PERMS_PI[perm] if i < n] + [i for i in range(n) if i >= 10]
    if perm % 2:
        order = order[::-1]
    section = {items[i][0]: items[i][1] for i in order}

    def run():
        g = S.transform_product_info(section)
        files = g["data_files"].attrs
        ok = (files["volume_directory"] == "VOL-X") & (files["sar_leader"] == "LED-X") & (files["sar_trailer"] == "TRL-X")
        ok = ok & (list(files["sar_imagery"]) == NAMES[2:2 + k - 3])
        shapes = g["shapes"].attrs
        ok = ok & (sorted(shapes) == ["1", "2"]) & isinstance(shapes["1"], tuple) & (len(shapes["1"]) == 2) & (len(shapes["2"]) == 2)
        ok = ok & conv(shapes["1"][0], "int", px1) & conv(shapes["1"][1], "int", ln1) & conv(shapes["2"][0], "int", px2) & conv(shapes["2"][1], "int", ln2)
        ok = ok & (g.attrs.get("ProductFormat") == "CEOS") & conv(g.attrs.get("BitPixel"), "int", ln1) & conv(g.attrs.get("ProductDataSize"), "float", px2)
        ok = ok & (sorted(g.data) == ["data_files", "shapes"])
        return ok

    return _with_stubs(run)
