"""CrossHair harnesses over the real cache glue: sar_image.open_image, caching.read_cache/create_cache/encode/decode,
caching.path.*, caching.encoders/decoders (array part) and cli.create_cache  (C07, C09, C10).

Symbolic: the state of the two cache locations (absent / complete / torn at character k of a document of length LEN), the
options use_cache / create_cache, the operation of a history step.  Concrete (enumerated inside the bodies): image geometry,
records_per_chunk of this call and of the call that wrote the cache.
Library boundaries are contract stubs: json (vlib.jsonc), pathlib.Path, hashlib, fsspec mapper / DirFileSystem / get_mapper,
construct record parsing (vlib.env), numpy stacking.  Every repository function runs unmodified.
"""
import datetime
import json
import os

import fsspec.implementations.dirfs as _DFS
import numpy as np

import ceos_alos2.sar_image as SI
from ceos_alos2 import array as A
from ceos_alos2.sar_image import caching as C
from ceos_alos2.sar_image import cli as CLI
from ceos_alos2.sar_image import io as IO
from ceos_alos2.sar_image.caching import decoders as DEC
from ceos_alos2.sar_image.caching import encoders as ENC
from ceos_alos2.sar_image.caching import path as CP
from vlib.env import Obj, Preamble, SpanFile
from vlib.jsonc import JsonStub, Text

P = json.loads(os.environ.get("VH_PARAMS") or "{}")
N = P.get("n", 2)
H = P.get("H", 12)
L = P.get("L", 16)
RPCS = P.get("rpcs", [2])
RPCS_W = P.get("rpcs_w", [1])
IMG = P.get("imgname", "IMG-HH-ALOS2290760600-191011-WBDR1.5GUD")
TYPE_CODE = P.get("type_code", "IU2")
PROD = ("", "prod")  # the product directory /prod as path parts
CACHE = ("", "home", ".cache", "xarray-ceos-alos2")
IMAGE = object()  # marker: the image file itself


# ---------------------------------------------------------------------------------------------- world


class World:
    """one local machine: a tree of files (keyed by path parts) seen through pathlib *and* through fsspec"""

    def __init__(self, doclen=1000, protocol="file"):
        self.protocol = protocol  # the filesystem the product lives on
        self.files = {PROD + (IMG,): IMAGE}
        self.dirs = {PROD, CACHE}
        self.log = []
        self.doclen = doclen

    def events(self, *kinds):
        return [e for e in self.log if e[0] in kinds]


_WORLDS = []


class StubPath:
    """pathlib.Path contract on a World (referenced by index: formatting a path must not drag the world along)"""

    def __init__(self, world, parts):
        if world not in _WORLDS:
            _WORLDS.append(world)
        self.wid, self.parts = _WORLDS.index(world), tuple(parts)

    @property
    def w(self):
        return _WORLDS[self.wid]

    def __str__(self):
        return "/".join(self.parts)

    __repr__ = __str__

    def __truediv__(self, other):
        if isinstance(other, Digest):
            return StubPath(self.w, self.parts + (other,))
        return StubPath(self.w, self.parts + tuple(str(other).split("/")))

    @property
    def parent(self):
        return StubPath(self.w, self.parts[:-1])

    @property
    def name(self):
        return self.parts[-1]

    def as_uri(self):
        return "file://" + "/".join(self.parts)

    def is_file(self):
        self.w.log.append(("is_file", self.parts))
        return self.parts in self.w.files

    def is_dir(self):
        return self.parts in self.w.dirs

    def mkdir(self, mode=0o777, parents=False, exist_ok=False):
        if self.parts in self.w.dirs:
            if not exist_ok:
                raise FileExistsError(self.parts)
            return
        if self.parts[:-1] not in self.w.dirs:
            if not parents:
                raise FileNotFoundError(self.parts)
            StubPath(self.w, self.parts[:-1]).mkdir(parents=True, exist_ok=True)
        self.w.log.append(("mkdir", self.parts))
        self.w.dirs.add(self.parts)

    def read_text(self, *a, **k):
        self.w.log.append(("read_text", self.parts))
        if self.parts not in self.w.files:
            raise FileNotFoundError(self.parts)
        return self.w.files[self.parts].decode()  # text mode decodes the bytes on disk

    def write_text(self, text, *a, **k):
        if self.parts[:-1] not in self.w.dirs:
            raise FileNotFoundError(self.parts)
        self.w.log.append(("write_text", self.parts))
        self.w.files[self.parts] = text


class InnerFS:
    """the fsspec filesystem the product lives on"""

    def __init__(self, world, protocol="file"):
        self.w, self.protocol = world, protocol

    def _strip_protocol(self, path):
        pre = self.protocol + "://"
        return path[len(pre):] if path.startswith(pre) else path


class DirFS:
    """fsspec.implementations.dirfs.DirFileSystem contract: files below `path` on `fs`"""

    def __init__(self, path=None, fs=None):
        self.path, self.fs = path, fs

    def __eq__(self, other):
        # same directory on the same kind of filesystem (identity of the inner filesystem object is asserted separately)
        return isinstance(other, DirFS) and self.path == other.path and self.fs.protocol == other.fs.protocol

    def __hash__(self):
        return hash(self.path)

    def open(self, url, mode="rb", **kw):
        w = self.fs.w
        w.log.append(("open", self.path, url, mode))
        parts = tuple(self.path.split("/")) + (url,)
        if w.files.get(parts) is not IMAGE or self.fs.protocol != w.protocol:
            raise FileNotFoundError(url)  # the product's files exist on the product's filesystem only
        return SpanFile(720 + N * L, w.log, tag=url)


class StubMapper:
    """fsspec mapper contract: keys below root"""

    def __init__(self, world, root, fs=None):
        self.w, self.root = world, root
        self.fs = fs if fs is not None else InnerFS(world, world.protocol)

    def _parts(self, key):
        return tuple(self.root.split("/")) + (key,)

    def __contains__(self, key):
        self.w.log.append(("contains", key))
        return self._parts(key) in self.w.files

    def __getitem__(self, key):
        self.w.log.append(("getitem", key))
        if self._parts(key) not in self.w.files:
            raise KeyError(key)
        return self.w.files[self._parts(key)]


class Digest:
    """an opaque hex digest: equal iff algorithm and hashed text are equal (hashlib contract: a function, collision-free)"""

    def __init__(self, alg, text):
        self.alg, self.text = alg, text

    def __eq__(self, other):
        return isinstance(other, Digest) and self.alg == other.alg and self.text == other.text

    __hash__ = None  # never hashed: only used by location_ok, where paths are compared, not stored


OPAQUE = [False]


def digest(alg, text):
    """hashlib contract: a slash-free digest that is a function of (algorithm, text) and collision-free"""
    if OPAQUE[0]:
        return Digest(alg, text)
    if isinstance(text, bytes):
        text = text.decode()
    return alg + "-" + text.replace("/", "|")


class HashlibStub:
    """hashlib contract: the digest is a function of algorithm and data (kept readable: injective by construction)"""

    class _M:
        def __init__(self, alg):
            self.alg, self.data = alg, b""

        def update(self, b):
            self.data += b

        def hexdigest(self):
            return digest(self.alg, self.data)

    @classmethod
    def new(cls, alg):
        return cls._M(alg)


class FsspecStub:
    def __init__(self, world):
        self.w = world

    def get_mapper(self, url, **kw):
        # fsspec URL contract: the protocol written in the url, the local filesystem if none; a new filesystem object
        proto = "file"
        if "://" in url:
            proto, url = url.split("://", 1)
        return StubMapper(self.w, url, fs=InnerFS(self.w, proto))


# ---------------------------------------------------------------------------- records (construct boundary)


class FD:
    def parse(self, content):
        if len(content) < 720:
            raise EOFError("stream read less than specified amount")
        return Obj(
            preamble=Obj(record_length=720),
            number_of_sar_data_records=N, sar_data_record_length=L,
            sar_related_data_in_the_record=Obj(number_of_lines_per_dataset=N, number_of_data_groups_per_line=(L - H) // 2, interleaving_id="BSQ"),
            prefix_suffix_data_locators=Obj(sar_data_format_type_code=TYPE_CODE, maximum_data_range_of_pixel=float("nan"),
                                            number_of_burst_data=-1, number_of_lines_per_burst=7),
            scansar_burst_data_information=Obj(number_of_overlap_lines_with_adjacent_bursts=-1),
        )


class RecParser:
    def __init__(self, k):
        self.k = k

    def parse(self, content):
        if len(content) < self.k * L:
            raise EOFError("stream read less than specified amount")
        first = (content.lo - 720) // L
        recs = []
        for j in range(self.k):
            i = first + j
            recs.append(Obj(
                record_start=j * L, data=Obj(start=j * L + H, stop=(j + 1) * L, size=L - H),
                sar_image_data_line_number=i + 1,
                sensor_acquisition_date=datetime.datetime(2020, 2, 29, 23, 59, 58 + i % 2, 999000),
                slant_range_to_1st_data_sample=(850000 + i, {"units": "m"}),
                prf=(1500000.5 + i, {"units": "mHz"}),
                latitude=(-(2**31) + i, {"units": "1e-6 °"}),
                big=(2**63 - 1 - i, {}),
                flag=(i % 2 == 0),
                scan_id=3, sar_channel_code="HH", spare1=b"\x00",
            ))
        return recs


class RecStruct:
    def __getitem__(self, k):
        return RecParser(k)


class _NP:
    def __getattr__(self, k):
        return getattr(np, k)

    @staticmethod
    def array(x, *a, **k):
        return list(x)


class Patched:
    """installs the library stubs around one scenario"""

    def __init__(self, world):
        self.w = world

    def __enter__(self):
        w = self.w
        self.saved = [(IO, "file_descriptor_record", IO.file_descriptor_record), (IO, "record_preamble", IO.record_preamble),
                      (IO, "record_types", IO.record_types), (_DFS, "DirFileSystem", _DFS.DirFileSystem), (C, "json", C.json),
                      (CP, "cache_root", CP.cache_root), (CP, "hashlib", CP.hashlib), (CLI, "fsspec", CLI.fsspec), (A, "np", A.np),
                      (DEC, "fsspec", DEC.fsspec)]
        IO.file_descriptor_record = FD()
        IO.record_preamble = Preamble(11)
        IO.record_types = {10: RecStruct(), 11: RecStruct()}
        _DFS.DirFileSystem = DirFS
        C.json = JsonStub(w.doclen)
        CP.cache_root = StubPath(w, CACHE)
        CP.hashlib = HashlibStub
        CLI.fsspec = FsspecStub(w)
        DEC.fsspec = FsspecStub(w)
        A.np = _NP()
        return self

    def __exit__(self, *a):
        for mod, name, val in self.saved:
            setattr(mod, name, val)
        return False


LOCAL = CACHE + (digest("sha256", "/prod"), IMG + ".index")
ADJ = PROD + (IMG + ".index",)


def _open(world, use_cache, create_cache, rpc, root="/prod"):
    mapper = StubMapper(world, root)
    g = SI.open_image(mapper, IMG, use_cache=use_cache, create_cache=create_cache, records_per_chunk=rpc)
    # on a non-local protocol the image array must read through the very filesystem object the product was opened with
    # (it carries the storage options); local filesystems are interchangeable
    if world.protocol != "file" and g["data"].data.fs.fs is not mapper.fs:
        raise AssertionError("image array is bound to a different filesystem than the product's")
    return g


def _fresh(rpc, protocol="file"):
    w = World(protocol=protocol)
    with Patched(w):
        return _open(w, False, False, rpc)


def _tree(rpc_w):
    w = World()
    with Patched(w):
        d = C.encode(_open(w, False, False, rpc_w)).doc
        return d.tree, d.ascii_only


# concrete, computed once at import time (outside CrossHair's tracing) by the real reader / encoder
PROTOCOLS = ["file", "memory", "x"]
_FRESH = {(rpc, pr): _fresh(rpc, pr) for rpc in sorted(set(RPCS)) for pr in PROTOCOLS}
_TREES = {rpc_w: _tree(rpc_w) for rpc_w in sorted(set(RPCS_W))}


def fresh(rpc, protocol="file"):
    """the reference: an uncached open of the pristine product with this call's records_per_chunk"""
    return _FRESH[(rpc, protocol)]


def document(rpc_w, doclen):
    """the index document written by a run with records_per_chunk = rpc_w; its length is symbolic"""
    from vlib.jsonc import Doc

    return Doc(_TREES[rpc_w][0], doclen, ascii_only=_TREES[rpc_w][1])


# ---------------------------------------------------------------------------------------------- oracle


def same_data(a, b):
    if isinstance(a, A.Array) or isinstance(b, A.Array):
        if not (isinstance(a, A.Array) and isinstance(b, A.Array)):
            return False
        return ((a.url == b.url) & (a.fs == b.fs) & (list(map(tuple, a.byte_ranges)) == list(map(tuple, b.byte_ranges)))
                & (tuple(a.shape) == tuple(b.shape)) & (str(a.dtype) == str(b.dtype)) & (a.type_code == b.type_code)
                & (a.records_per_chunk == b.records_per_chunk) & (a.chunk_offsets == b.chunk_offsets))
    x, y = np.asarray(a), np.asarray(b)
    if x.dtype != y.dtype or x.shape != y.shape:
        return False
    if x.dtype.kind in "fc":
        return bool(np.array_equal(x, y, equal_nan=True))
    return bool(np.array_equal(x, y))


def same_attrs(a, b):
    if list(a) != list(b):
        return False
    for k in a:
        x, y = a[k], b[k]
        if type(x) is not type(y):
            return False
        if isinstance(x, float) and x != x:
            if y == y:
                return False
        elif x != y:
            return False
    return True


def same_group(a, b):
    """independent structural equality: paths, url, order of members, dims, attrs, data kinds and values"""
    if a.path != b.path or a.url != b.url or list(a.data) != list(b.data) or not same_attrs(a.attrs, b.attrs):
        return False
    for name in a.data:
        x, y = a.data[name], b.data[name]
        if type(x) is not type(y):
            return False
        if hasattr(x, "dims"):
            if list(x.dims) != list(y.dims) or not same_attrs(x.attrs, y.attrs) or not same_data(x.data, y.data):
                return False
        elif not same_group(x, y):
            return False
    return True


# ---------------------------------------------------------------------------------------------- scenarios


def _install(world, where, state, k, doc, midchar=False):
    """state: 0 absent, 1 complete document, 2 torn after k characters (midchar: the last character is cut in the middle of its bytes)"""
    if state == 1:
        world.files[where] = Text(doc, doc.length)
    elif state == 2:
        world.files[where] = Text(doc, k, midchar)
    if where[:-1] not in world.dirs:
        world.dirs.add(where[:-2])
        world.dirs.add(where[:-1])


def decodes_ok(world, where, rpc):
    """the index file at `where` serves a cached open (through the public open_image) that equals the uncached group, image untouched"""
    w2 = World(world.doclen, world.protocol)
    w2.files[LOCAL] = world.files[where]
    w2.dirs.add(LOCAL[:-2])
    w2.dirs.add(LOCAL[:-1])
    with Patched(w2):
        g = _open(w2, True, False, rpc)
        return same_group(g, fresh(rpc, world.protocol)) & (len(w2.events("open")) == 0)


def _usable(world, where):
    t = world.files.get(where)
    return t is not None and t.complete()


def _step(use_cache, create_cache, local, remote, k, doclen, rpc, rpc_w, strict, protocol="file", midchar=False):
    """one open_image call from an arbitrary cache state; returns the conjunction of everything C07/C09/C10 demand of it"""
    doc = document(rpc_w, doclen)
    w = World(doclen, protocol)
    _install(w, LOCAL, local, k, doc, midchar)
    _install(w, ADJ, remote, k, doc, midchar)
    before = dict(w.files)
    want = fresh(rpc, protocol)
    with Patched(w):
        got = _open(w, use_cache, create_cache, rpc)
        ok = same_group(got, want)
        opens = w.events("open")
        lookups = w.events("is_file", "read_text", "contains", "getitem")
        writes = w.events("write_text", "mkdir")
        local_ok, adj_ok = _usable(_W(before), LOCAL), _usable(_W(before), ADJ)
        if not use_cache:
            ok = ok & (len(lookups) == 0) & (len(opens) == 1)  # no cache consulted, product parsed normally
        elif local == 1 or (local == 0 and remote == 1):
            ok = ok & (len(opens) == 0) & (len(w.events("read")) == 0)  # usable cache: the image is not re-read at open time
        elif strict:
            ok = ok & (len(opens) == 1)  # no cache at all: parsed normally, one open of the image
        for e in opens:
            ok = ok & (e[1] == "/prod") & (e[2] == IMG)
        # writes: only this image's index file in the user cache dir (and its directories), only when asked
        for e in writes:
            ok = ok & create_cache & (e[1][:len(CACHE)] == CACHE)
        for e in w.events("write_text"):
            ok = ok & (e[1] == LOCAL)
        for key in before:
            if key != LOCAL:
                ok = ok & (w.files.get(key) is before[key])
        ok = ok & (set(w.files) - {LOCAL} == set(before) - {LOCAL})
        if not create_cache:
            ok = ok & (w.files.get(LOCAL) is before.get(LOCAL))
        else:
            # repair: afterwards a default open is served correctly, and if the local file was (re)written it is complete
            if len(w.events("write_text")) > 0:
                ok = ok & _usable(w, LOCAL)
            if not (use_cache and (local_ok or (local == 0 and adj_ok))):
                ok = ok & _usable(w, LOCAL)  # the parse path ran with create_cache=True: the local index must now be usable
        # every index file present afterwards that is complete decodes to this image's group (invariant of C10)
        for where in (LOCAL, ADJ):
            if _usable(w, where):
                for rpc2 in RPCS:
                    ok = ok & decodes_ok(w, where, rpc2)
        # the same call once more gives the same tree
        w.log.clear()
        got2 = _open(w, use_cache, create_cache, rpc)
        ok = ok & same_group(got2, want)
    return ok


class _W:
    def __init__(self, files):
        self.files = files


def glue_ok(use_cache: bool, create_cache: bool, local: bool, remote: bool, doclen: int, proto: int) -> bool:
    """
    pre: doclen >= 2 and 0 <= proto <= 2
    post: _
    """
    ok = True
    for rpc in RPCS:
        for rpc_w in RPCS_W:
            ok = ok & _step(use_cache, create_cache, 1 if local else 0, 1 if remote else 0, 0, doclen, rpc, rpc_w, True, PROTOCOLS[proto])
    return ok


def torn_ok(use_cache: bool, create_cache: bool, local: int, remote: int, k: int, doclen: int, proto: int, midchar: bool) -> bool:
    """
    pre: doclen >= 2 and 0 <= k < doclen and 0 <= proto <= 2
    pre: 0 <= local <= 2 and 0 <= remote <= 2 and (local == 2 or remote == 2)
    post: _
    """
    ok = True
    for rpc in RPCS:
        ok = ok & _step(use_cache, create_cache, local, remote, k, doclen, rpc, RPCS_W[0], False, PROTOCOLS[proto], midchar)
    return ok


def default_open_after_crash_ok(local: int, remote: int, k: int, doclen: int, midchar: bool) -> bool:
    """
    pre: doclen >= 2 and 0 <= k < doclen
    pre: 0 <= local <= 2 and 0 <= remote <= 2
    post: _
    """
    # open_image with its *default* options (use_cache=True, create_cache=False), then the repair, then a default open again
    doc = document(RPCS_W[0], doclen)
    w = World(doclen)
    _install(w, LOCAL, local, k, doc, midchar)
    _install(w, ADJ, remote, k, doc, midchar)
    ok = True
    with Patched(w):
        mapper = StubMapper(w, "/prod")
        for rpc in RPCS:
            got = SI.open_image(mapper, IMG, records_per_chunk=rpc)
            ok = ok & same_group(got, fresh(rpc))
        SI.open_image(mapper, IMG, use_cache=False, create_cache=True, records_per_chunk=RPCS[0])
        ok = ok & _usable(w, LOCAL)
        w.log.clear()
        got = SI.open_image(mapper, IMG, records_per_chunk=RPCS[-1])
        ok = ok & same_group(got, fresh(RPCS[-1])) & (len(w.events("open")) == 0)
    return ok


# ---------------------------------------------------------------------------------------------- CLI


def _cli(world, image_exists, with_target, target_exists, rpc):
    image = StubPath(world, PROD + (IMG,))
    if not image_exists:
        del world.files[PROD + (IMG,)]
    target = None
    if with_target:
        target = StubPath(world, ("", "somewhere", "else"))
        if target_exists:
            world.dirs.add(target.parts)
    CLI.create_cache(image, target, rpc)
    return target


def cli_ok(image_exists: bool, with_target: bool, target_exists: bool, local: bool, doclen: int) -> bool:
    """
    pre: doclen >= 2
    post: _
    """
    ok = True
    for rpc_w in RPCS_W:
        w = World(doclen)
        _install(w, LOCAL, 1 if local else 0, 0, document(RPCS_W[0], doclen))
        before = dict(w.files)
        with Patched(w):
            try:
                _cli(w, image_exists, with_target, target_exists, rpc_w)
                raised = None
            except OSError as e:
                raised = e
            writes = w.events("write_text")
            if not image_exists:
                ok = ok & isinstance(raised, FileNotFoundError) & (len(writes) == 0)
                continue
            if with_target and not target_exists:
                ok = ok & (raised is not None) & (len(writes) == 0)
                continue
            where = (("", "somewhere", "else") if with_target else PROD) + (IMG + ".index",)
            ok = ok & (raised is None) & (len(writes) == 1) & (writes[0][1] == where) & _usable(w, where)
            ok = ok & (len(w.events("is_file", "read_text", "contains", "getitem")) <= 1)  # only the image's own existence test
            ok = ok & (w.files.get(LOCAL) is before.get(LOCAL)) & (len(w.events("mkdir")) == 0)
            for rpc in RPCS:
                ok = ok & decodes_ok(w, where, rpc)
            if not with_target and not local:
                # the adjacent index is what a later cached open of the product finds, without opening the image
                w.log.clear()
                for rpc in RPCS:
                    got = _open(w, True, False, rpc)
                    ok = ok & same_group(got, fresh(rpc))
                ok = ok & (len(w.events("open")) == 0)
    return ok


# ---------------------------------------------------------------------------------------------- history step (C10)


def history_step_ok(op: int, use_cache: bool, create_cache: bool, local: bool, remote: bool, with_target: bool, doclen: int, proto: int) -> bool:
    """
    pre: 0 <= op <= 3 and doclen >= 2 and 0 <= proto <= 2
    pre: op != 1 or proto == 0
    post: _
    """
    protocol = PROTOCOLS[proto]  # the CLI takes a local path (pathlib), so cli-create exists for local products only
    # Inv(S): every index file present is a complete document encoding this image's group (written with any rpc_w).
    # One step of any operation from any such state: result as a fresh uncached open, Inv preserved, writes only where allowed.
    ok = True
    for rpc_w in RPCS_W:
        doc = document(rpc_w, doclen)
        for rpc in RPCS:
            w = World(doclen, protocol)
            _install(w, LOCAL, 1 if local else 0, 0, doc)
            _install(w, ADJ, 1 if remote else 0, 0, doc)
            before = dict(w.files)
            with Patched(w):
                if op == 0:
                    got = _open(w, use_cache, create_cache, rpc)
                    ok = ok & same_group(got, fresh(rpc, protocol))
                    allowed = {LOCAL} if create_cache else set()
                elif op == 1:
                    t = _cli(w, True, with_target, True, rpc)
                    allowed = {(t.parts if t is not None else PROD) + (IMG + ".index",)}
                elif op == 2:
                    w.files.pop(LOCAL, None)
                    allowed = {LOCAL}
                else:
                    w.files.pop(ADJ, None)
                    allowed = {ADJ}
                for key in set(before) | set(w.files):
                    if key not in allowed:
                        ok = ok & (w.files.get(key) is before.get(key))
                for e in w.events("write_text", "mkdir"):
                    ok = ok & ((e[1][:len(PROD)] != PROD) | (op == 1))  # opening never writes into the product directory
                for where in (LOCAL, ADJ):
                    if where in w.files:
                        ok = ok & _usable(w, where)
                        for rpc2 in RPCS:
                            ok = ok & decodes_ok(w, where, rpc2)
    return ok


# ---------------------------------------------------------------------------------------------- location


def location_root_ok(root: str) -> bool:
    """
    pre: len(root) <= 3
    post: _
    """
    ok = True
    for path in ("IMG", "a/IMG", "a/b/", "", "/"):
        ok = ok & location_ok(root, path)
    return ok


def location_path_ok(path: str) -> bool:
    """
    pre: len(path) <= 4
    post: _
    """
    ok = True
    for root in ("/prod", "", "memory://x/y"):
        ok = ok & location_ok(root, path)
    return ok


def location_ok(root, path):
    w = World()
    OPAQUE[0] = True
    try:
        with Patched(w):
            loc = CP.local_cache_location(root, path)
            rem = CP.remote_cache_location(root, path)
            want = digest("sha256", root.encode())
    finally:
        OPAQUE[0] = False
    # reference: file name = text after the last "/" (index loop, not rsplit)
    cut = 0
    for i in range(len(path)):
        if path[i] == "/":
            cut = i + 1
    fname = path[cut:]
    ok = (loc.parts == CACHE + (want, fname + ".index"))
    return ok & (rem == path + ".index")


# ---------------------------------------------------------------------------------------------- array codec


def _mk(root, inner, url, lines, pixels, s0, e0, s1, e1, rpc):
    fs = DirFS(path=root, fs=inner)
    return A.Array(fs=fs, url=url, byte_ranges=[(s0, e0), (s1, e1)], shape=(lines, pixels), dtype=P.get("dtype", "uint16"),
                   type_code=TYPE_CODE, records_per_chunk=rpc)


def array_codec_ok(root: str, proto: int, lines: int, pixels: int, s0: int, e0: int, s1: int, e1: int) -> bool:
    """
    pre: len(root) <= 3 and 0 <= proto <= 2
    pre: lines >= 1 and pixels >= 1 and 0 <= s0 <= e0 <= s1 <= e1
    post: _
    """
    w = World()
    inner = InnerFS(w, ["file", "memory", "x"][proto])
    ok = True
    with Patched(w):
        _DFS.DirFileSystem = DirFS
        for rpc_w in RPCS_W:
            arr = _mk(root, inner, IMG, lines, pixels, s0, e0, s1, e1, rpc_w)
            text = C.json.dumps(ENC.preprocess(ENC.encode_array(arr)))
            for rpc in RPCS:
                enc = C.json.loads(text, object_hook=DEC.postprocess)
                back = DEC.decode_array(enc, records_per_chunk=rpc, fs=inner)
                want = _mk(root, inner, IMG, lines, pixels, s0, e0, s1, e1, rpc)
                ok = ok & same_data(back, want) & (back.fs.fs is inner) & (back.fs.path == root) & isinstance(back.shape, tuple)
                ok = ok & isinstance(back.byte_ranges[0], tuple)
    return ok


# ---------------------------------------------------------------------------------------------- API replays


def _api(local, remote, k_frac, use_cache=True, create_cache=False):
    from vlib import api

    return api.cache_states(local, remote, k_frac, use_cache, create_cache)


def api_replay_torn_ok(use_cache, create_cache, local, remote, k, doclen, proto, midchar):
    return _api(local, remote, k / doclen, use_cache, create_cache)


def api_replay_default_open_after_crash_ok(local, remote, k, doclen, midchar):
    return _api(local, remote, k / doclen)


def api_replay_glue_ok(use_cache, create_cache, local, remote, doclen, proto):
    if proto == 0:
        return _api(int(local), int(remote), 0.0, use_cache, create_cache)
    from vlib import api

    return api.cache_transparency(protocol="memory", location="adjacent" if remote else "local")

