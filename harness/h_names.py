"""group names: real sar_image.filename_to_groupname with decode_filename (decided separately by engine R) stubbed"""
import ceos_alos2.sar_image as SI


def groupname_ok(pol: str, scan: int, has_scan: bool, has_pol: bool) -> bool:
    """
    pre: len(pol) == 2 and 0 <= scan <= 9
    post: _
    """
    info = {"filetype": "IMG", "mission_name": "ALOS2", "orbit_accumulation": "29076", "scene_frame": "0600"}
    info["polarization"] = pol if has_pol else None
    digit = "0123456789"[scan]
    if has_scan:
        info["processing_method"] = "full aperture_method"
        info["scan_number"] = digit
    orig = SI.decode_filename
    SI.decode_filename = lambda path: info
    try:
        name = SI.filename_to_groupname("IMG-x")
    finally:
        SI.decode_filename = orig
    want = (pol if has_pol else "")
    if has_scan:
        want = (want + "_" if has_pol else "") + "scan" + digit
    return name == want
