"""C18.missing: a missing summary / volume directory / leader / image file surfaces as OSError (file-not-found style),
for every file name; the cache fallback of open_image must not swallow it."""
import fsspec.implementations.dirfs as _DFS

import ceos_alos2.sar_image as SI
from ceos_alos2.sar_image import caching as C
from ceos_alos2.sar_leader.io import open_sar_leader
from ceos_alos2.summary import open_summary
from ceos_alos2.volume_directory.io import open_volume_directory


class EmptyMapper:
    """fsspec mapper of an empty store: every key lookup raises KeyError (pure python, no hashing of the symbolic name)"""

    root = "/prod"
    fs = None

    def __getitem__(self, key):
        raise KeyError(key)

    def __contains__(self, key):
        return False


class NoPath:
    def is_file(self):
        return False


def missing_ok(name: str) -> bool:
    """
    pre: len(name) <= 3
    post: _
    """
    ok = True
    for opener in (open_summary, open_volume_directory, open_sar_leader):
        try:
            opener(EmptyMapper(), name)
            ok = False
        except OSError:
            pass
    return ok


class NoFS:
    def __init__(self, path=None, fs=None):
        self.path, self.fs = path, fs

    def open(self, path, mode="rb"):
        raise FileNotFoundError(path)


def missing_image_ok(use_cache: bool, create_cache: bool, rpc: int) -> bool:
    """
    pre: rpc >= 1
    post: _
    """
    orig = (_DFS.DirFileSystem, C.local_cache_location)
    _DFS.DirFileSystem = NoFS
    C.local_cache_location = lambda root, path: NoPath()
    try:
        try:
            SI.open_image(EmptyMapper(), "IMG-HH-ALOS2290760600-191011-WBDR1.5GUD", use_cache=use_cache, create_cache=create_cache,
                          records_per_chunk=rpc)
            return False
        except C.CachingError:
            return False  # "no cache" must not be what the caller sees for a missing image
        except OSError:
            return True
    finally:
        _DFS.DirFileSystem, C.local_cache_location = orig
