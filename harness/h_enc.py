"""C06.enc: the advertised preferred chunk sizes are min(records_per_chunk, lines) x columns - and nothing else."""
from ceos_alos2 import array as A
from ceos_alos2 import xarray as X
from ceos_alos2.hierarchy import Variable

# chunk byte offsets are not the subject here (C01.get decides them); itertools.islice inside toolz.partition_all would
# realise the symbolic chunk size, so the table is left empty for this obligation
A.compute_chunk_offsets = lambda byte_ranges, chunks: {}


def enc_ok(rpc: int, n: int, m: int) -> bool:
    """
    pre: rpc >= 1 and n >= 1 and m >= 1
    post: _
    """
    arr = A.Array(fs=None, url="IMG", byte_ranges=[], shape=(n, m), dtype="uint16", type_code="IU2", records_per_chunk=rpc)
    var = Variable(["rows", "columns"], arr, {})
    enc = X.extract_encoding(var)
    want = rpc if rpc <= n else n
    ok = (enc == {"preferred_chunksizes": {"rows": want, "columns": m}})
    ok = ok & (arr.chunks == (want, m)) & (var.sizes == {"rows": n, "columns": m})
    plain = Variable(["rows"], [1, 2, 3], {})
    return ok & (X.extract_encoding(plain) == {}) & (plain.chunks == {})


def enc_default_ok(n: int, m: int) -> bool:
    """
    pre: n >= 1 and m >= 1
    post: _
    """
    ok = True
    for rpc, want in ((None, 1024), (-1, n)):
        arr = A.Array(fs=None, url="IMG", byte_ranges=[], shape=(n, m), dtype="uint16", type_code="IU2", records_per_chunk=rpc)
        ok = ok & (arr.records_per_chunk == want)
    return ok
