"""C05.trailer.read: real sar_trailer.read_sar_trailer on an abstract file; the descriptor struct and np.frombuffer are stubbed."""
import ceos_alos2.sar_trailer as T
from vlib.env import Obj, SpanFile


class HdrStub:
    def __init__(self, recs):
        self.recs = recs

    def parse(self, content):
        if len(content) < 720:
            raise EOFError("short descriptor")
        return Obj(low_resolution_image_sizes=self.recs)


def trailer_ok(l0: int, l1: int, l2: int, px: int, ln: int, nb: int) -> bool:
    """
    pre: l0 >= 0 and l1 >= 0 and l2 >= 0 and px >= 0 and ln >= 0 and nb >= 1
    post: _
    """
    ok = True
    orig = (T.file_descriptor_record, T.parse_image_data)
    try:
        for k in range(0, 4):
            lens = [l0, l1, l2][:k]
            recs = [Obj(record_length=lens[i], number_of_pixels=px + i, number_of_lines=ln + 2 * i, number_of_bytes_per_one_sample=nb + i)
                    for i in range(k)]
            T.file_descriptor_record = HdrStub(recs)
            T.parse_image_data = lambda content, shape, n_bytes: (content, shape, n_bytes)
            log = []
            f = SpanFile(720 + sum(lens), log, tag="TRL")
            header, images = T.read_sar_trailer(f)
            ok = ok & (len(images) == k)
            start = 720
            for i, (content, shape, n_bytes) in enumerate(images):
                ok = ok & (content.lo == start) & (content.hi == start + lens[i])
                ok = ok & (shape == (px + i, ln + 2 * i)) & (n_bytes == nb + i)
                start = start + lens[i]
    finally:
        T.file_descriptor_record, T.parse_image_data = orig
    return ok
