"""C12: declared dtype/shape of the lazy image variable, type discipline of every variable and attribute of the tree."""
import json
import os
import sys

import numpy as np

sys.setrecursionlimit(20000)
from ceos_alos2 import array as A  # noqa: E402
from ceos_alos2 import xarray as X  # noqa: E402
from ceos_alos2.hierarchy import Group, Variable  # noqa: E402
from ceos_alos2.sar_image import metadata as IM  # noqa: E402
from vlib import plumbspec as PS  # noqa: E402
from vlib.env import StubFS  # noqa: E402

P = json.loads(os.environ.get("VH_PARAMS") or "{}")
VARIANTS = P.get("variants", ["image.15.n2", "image.11.n2", "leader.utm", "leader.nomp", "volume.fp3"])
SPEC = PS.load()
for _v in VARIANTS:
    PS.prepared(_v)
TYPE_CODES = ["IU2", "C*8"]
SCALARS = (bool, int, float, complex, str)


def declared_ok(lines: int, pixels: int, tc: int, rpc: int) -> bool:
    """
    pre: lines >= 1 and pixels >= 1 and 0 <= tc <= 1 and rpc >= 1
    post: _
    """
    type_code = TYPE_CODES[tc]
    # the dtype name transform_metadata records for this type code, as the reader does it
    dtype_name = str(IM.dtypes[type_code])
    saved = A.compute_chunk_offsets
    A.compute_chunk_offsets = lambda byte_ranges, chunks: {}
    try:
        arr = A.Array(fs=None, url="IMG", byte_ranges=[], shape=(lines, pixels), dtype=dtype_name, type_code=type_code, records_per_chunk=rpc)
    finally:
        A.compute_chunk_offsets = saved
    w = X.LazilyIndexedWrapper(arr, None)
    loaded = A.parse_data(b"", type_code).dtype  # what a load produces
    ok = isinstance(w.dtype, np.dtype) & (w.dtype.newbyteorder("=") == loaded.newbyteorder("=")) & (w.dtype.kind in "biufcMmU")
    ok = ok & (tuple(w.shape) == (lines, pixels)) & (arr.ndim == 2)
    return ok


def empty_ok(start: int, stop: int, tc: int, rpc: int) -> bool:
    """
    pre: 0 <= start <= 3 and 0 <= stop <= start and 0 <= tc <= 1 and 1 <= rpc <= 4
    post: _
    """
    # an empty row selection is a real ndarray of the advertised dtype (up to byte order) with the image's columns
    type_code = TYPE_CODES[tc]
    bps = 2 if tc == 0 else 8
    n, m, H = 3, 2, 12
    L = H + m * bps
    br = [(720 + i * L + H, 720 + (i + 1) * L) for i in range(n)]
    arr = A.Array(fs=StubFS({"IMG": 720 + n * L}), url="IMG", byte_ranges=br, shape=(n, m), dtype=str(IM.dtypes[type_code]), type_code=type_code,
                  records_per_chunk=rpc)
    got = arr[(slice(start, stop), slice(None))]
    want = np.dtype(X.LazilyIndexedWrapper(arr, None).dtype)
    return isinstance(got, np.ndarray) & (got.shape == (0, m)) & (got.dtype.newbyteorder("=") == want.newbyteorder("=")) & (got.dtype.names is None)


def _plain_attr(v):
    if isinstance(v, SCALARS) or isinstance(v, (np.generic,)):
        return True
    if isinstance(v, (list, tuple)):
        ok = True
        for e in v:
            ok = ok & _plain_attr(e)
        return ok
    return False


def _plain_data(d):
    if isinstance(d, A.Array):
        return True
    if isinstance(d, np.ndarray):
        return d.dtype.kind in "biufcMmU"
    if isinstance(d, (list,)):
        kinds = set()
        ok = True
        for e in d:
            if isinstance(e, list):
                ok = ok & _plain_data(e)
            elif isinstance(e, SCALARS) and not isinstance(e, (dict, tuple)):
                kinds.add("num" if isinstance(e, (bool, int, float, complex)) else "str")
            else:
                return False
        return ok & (len(kinds) <= 1)
    return isinstance(d, SCALARS) or isinstance(d, np.generic)


def _walk(group, path=""):
    ok = True
    for k, v in group.attrs.items():
        ok = ok & isinstance(k, str) & _plain_attr(v)
    for name, item in group.data.items():
        if isinstance(item, Group):
            ok = ok & _walk(item, path + "/" + name)
        else:
            ok = ok & isinstance(item, Variable) & _plain_data(item.data)
            dims = [item.dims] if isinstance(item.dims, str) else list(item.dims)
            ok = ok & all(isinstance(d, str) for d in dims)
            for k, v in item.attrs.items():
                ok = ok & isinstance(k, str) & _plain_attr(v)
            # rank of the data = number of dims
            rank = 0
            d = item.data
            if isinstance(d, (A.Array, np.ndarray)):
                rank = d.ndim
            else:
                while isinstance(d, list):
                    rank += 1
                    d = d[0] if d else None
            ok = ok & (rank == len(dims))
    return ok


def types_ok(x: int, vi: int) -> bool:
    """
    pre: 0 <= vi < len(VARIANTS)
    post: _
    """
    name = VARIANTS[vi]
    entry = SPEC[name]
    v, doc, paths = PS.prepared(name)
    used = PS.used_tokens(entry)
    values = PS.fill(name, [x] * len(used), entry)
    with PS.no_tracing():
        from vlib import tokens as T

        tokdoc = T.with_tokens(doc, paths, values)
    group = v["transform"](tokdoc)
    ok = _walk(group)
    # the same walk with EVERY integer field of the document blank (-1) or zero, also the flag / count / code fields whose values do not
    # reach the tree by identity (kept concrete above): a blank flag or count must not turn a variable or attribute into None / object
    for fillv in (-1, 0):
        with PS.no_tracing():
            try:
                alldoc = T.with_tokens(doc, paths, [fillv] * len(paths))
            except Exception:  # noqa: BLE001
                alldoc = None
        if alldoc is None:
            continue
        try:
            g2 = v["transform"](alldoc)
        except Exception:  # noqa: BLE001 - a structure-driving field (count, code) cannot take this value: not a typing question
            continue
        ok = ok & _walk(g2)
    return ok
