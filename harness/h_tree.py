"""CrossHair harnesses over the tree-assembly glue: io.open, xarray.open_alos2 / to_dataset / decode_coords, hierarchy.Group,
summary.categorize_filenames, sar_leader.metadata.transform_metadata (presence of record groups)  (C10.opts/alias, C13).

The four sub-openers (summary, volume directory, leader, image) are the subjects of their own obligations; here they are
stand-ins that record what they were called with and return marker groups, so that the wiring itself is what is decided.
"""
import copy
import json
import os
import posixpath

from ceos_alos2 import io as IOM
from ceos_alos2 import summary as SUM
from ceos_alos2 import xarray as X
from ceos_alos2.hierarchy import Group, Variable
from ceos_alos2.sar_image import filename_to_groupname
from ceos_alos2.sar_leader import metadata as MD

P = json.loads(os.environ.get("VH_PARAMS") or "{}")
SCENE = "ALOS2290760600-191011"
REF = "https://www.eorc.jaxa.jp/ALOS-2/en/doc/fdata/PALSAR-2_xx_Format_CEOS_E_f.pdf"


def image_names(pid="WBDR1.5GUD"):
    """all polarisation x scan combinations (scan: none, B0..B9/F0..F9 sampled)"""
    out = []
    for pol in ("HH", "HV", "VH", "VV"):
        out.append(f"IMG-{pol}-{SCENE}-{pid}")
    for pol in ("HH", "HV"):
        for scan in ("F1", "F2", "F5", "B0", "B9"):
            out.append(f"IMG-{pol}-{SCENE}-WWDR1.1__D-{scan}")
    return out


NAMES = image_names()
ORDERS = P.get("orders", [[0], [1, 0], [0, 1, 2, 3], [4, 9, 5, 10], [3, 2, 1, 0, 4, 5, 6, 7], [7, 12, 8, 13]])


class Rec:
    def __init__(self):
        self.mapper_calls, self.image_calls, self.opened = [], [], []


class FakeFsspec:
    names = ()  # what the product directory contains (set per case)

    def __init__(self, rec):
        self.rec = rec

    def get_mapper(self, path, **kw):
        m = _Mapper(path, kw, self.names)
        self.rec.mapper_calls.append(m)
        return m


class _Mapper:
    """the product's mapper: a read-only mapping interface over the names present in the directory (listing / membership only;
    file contents are served by the patched readers)"""

    def __init__(self, path, kw, names=()):
        self.root, self.kw, self.fs = "ROOT:" + path, kw, None
        self._names = list(names)

    def __contains__(self, key):
        return key in self._names

    def __iter__(self):
        return iter(list(self._names))

    def __len__(self):
        return len(self._names)

    def keys(self):
        return list(self._names)


class FakeSarImage:
    def __init__(self, rec):
        self.rec = rec

    def open_image(self, mapper, path, *, use_cache=True, create_cache=False, records_per_chunk=None):
        self.rec.image_calls.append((mapper, path, use_cache, create_cache, records_per_chunk))
        g = Group(path=filename_to_groupname(path), url=None, data={"data": Variable(["rows", "columns"], [[len(self.rec.image_calls)]], {"file": path})},
                  attrs={"file": path})
        return g


def _patched_open(rec, files):
    saved = (IOM.fsspec, IOM.open_summary, IOM.open_volume_directory, IOM.open_sar_leader, IOM.sar_image, X.to_datatree)

    def open_summary(mapper, path):
        rec.opened.append(("summary", mapper, path))
        df = Group(path="data_files", url=None, data={}, attrs={"volume_directory": "VOL-X", "sar_leader": "LED-X", "sar_imagery": list(files), "sar_trailer": "TRL-X"})
        pi = Group(path="product_info", url=None, data={"data_files": df}, attrs={})
        return Group("summary", None, {"product_information": pi}, attrs={})

    def open_volume_directory(mapper, path):
        rec.opened.append(("volume", mapper, path))
        return Group(None, None, {}, attrs={"control_document_id": "CEOS-SAR", "scene_id": SCENE})

    def open_sar_leader(mapper, path):
        rec.opened.append(("leader", mapper, path))
        return Group(None, None, {"dataset_summary": Group(None, None, {}, {"marker": 1})}, attrs={})

    IOM.fsspec = FakeFsspec(rec)
    IOM.open_summary, IOM.open_volume_directory, IOM.open_sar_leader = open_summary, open_volume_directory, open_sar_leader
    IOM.sar_image = FakeSarImage(rec)
    X.to_datatree = lambda group, chunks=None: (group, chunks)
    return saved


def _restore(saved):
    IOM.fsspec, IOM.open_summary, IOM.open_volume_directory, IOM.open_sar_leader, IOM.sar_image, X.to_datatree = saved


def _check_tree(root, rec, files, mapper):
    ok = (list(root.data) == ["summary", "metadata", "imagery"]) & (root.path == "/") & (root.url == mapper.root)
    ok = ok & (root.attrs == {"control_document_id": "CEOS-SAR", "scene_id": SCENE, "reference_document": REF})
    img = root["imagery"]
    want_names = [filename_to_groupname(f) for f in files]
    ok = ok & (list(img.data) == want_names) & (len(img.data) == len(files)) & (img.path == "/imagery")
    for name, f in zip(want_names, files):
        g = img[name]
        ok = ok & (g.attrs == {"file": f}) & (g.path == "/imagery/" + name) & (g["data"].attrs == {"file": f}) & (g.url == mapper.root)
    ok = ok & (root["metadata"].path == "/metadata") & (list(root["metadata"].data) == ["dataset_summary"]) & (root["summary"].path == "/summary")
    # every file was requested from the product's own mapper, by the names the summary lists, images in summary order
    ok = ok & (rec.opened == [("summary", mapper, "summary.txt"), ("volume", mapper, "VOL-X"), ("leader", mapper, "LED-X")])
    ok = ok & ([c[1] for c in rec.image_calls] == list(files)) & all(c[0] is mapper for c in rec.image_calls)
    # subtree lists every group path exactly once
    paths = [p for p, _ in root.subtree]
    ok = ok & (len(paths) == len(set(paths))) & (paths[0] == "/") & all(("/imagery/" + n) in paths for n in want_names)
    return ok


def opts_ok(use_cache: bool, create_cache: bool, rpc: int, give_uc: bool, give_cc: bool, give_rpc: bool, give_so: bool, token: int) -> bool:
    """
    post: _
    """
    ok = True
    for k, order in enumerate(ORDERS):
        # directory states (enumerated, not symbolic: they only steer membership tests): plain; for the two-image order also an
        # <image>.index next to every image, one listed image absent, both
        for adjacent, absent in ([(False, -1), (True, -1), (False, 0), (True, 1)] if k == 1 else [(False, -1)]):
            ok = ok & _opts_case(order, adjacent, absent, use_cache, create_cache, rpc, give_uc, give_cc, give_rpc, give_so, token)
    return ok


def _opts_case(order, adjacent, absent, use_cache, create_cache, rpc, give_uc, give_cc, give_rpc, give_so, token):
    # adjacent: an <image>.index lies next to every image; absent: one listed image is not in the directory (its reader then fails -
    # here the stand-in reader records the call): neither changes which files are handed to the image reader nor with which options
    ok = True
    defaults_before = (copy.deepcopy(IOM.open.__kwdefaults__), copy.deepcopy(X.open_alos2.__defaults__))
    for order in [order]:
        files = [NAMES[i] for i in order]
        rec = Rec()
        saved = _patched_open(rec, files)
        present = ["summary.txt", "VOL-X", "LED-X", "TRL-X"] + [f for k, f in enumerate(files) if k != absent] + ([f + ".index" for f in files] if adjacent else [])
        IOM.fsspec.names = present
        try:
            so = {"anon": token, "nested": {"k": [token]}}
            opts = {}
            if give_uc:
                opts["use_cache"] = use_cache
            if give_cc:
                opts["create_cache"] = create_cache
            if give_rpc:
                opts["records_per_chunk"] = rpc
            if give_so:
                opts["storage_options"] = so
            opts_before, so_before = copy.deepcopy(opts), copy.deepcopy(so)
            root, chunks = X.open_alos2("/prod", backend_options=opts) if (give_uc or give_cc or give_rpc or give_so) else X.open_alos2("/prod")
            ok = ok & (opts == opts_before) & (so == so_before) & (chunks is None)
            ok = ok & (len(rec.mapper_calls) == 1) & (rec.mapper_calls[0].root == "ROOT:/prod") & (rec.mapper_calls[0].kw == (so if give_so else {}))
            for c in rec.image_calls:
                ok = ok & (c[2] == (use_cache if give_uc else True)) & (c[3] == (create_cache if give_cc else False)) & (c[4] == (rpc if give_rpc else 1024))
            ok = ok & _check_tree(root, rec, files, rec.mapper_calls[0])
        finally:
            _restore(saved)
    ok = ok & (IOM.open.__kwdefaults__ == defaults_before[0]) & (X.open_alos2.__defaults__ == defaults_before[1])
    ok = ok & (IOM.open.__kwdefaults__["storage_options"] == {}) & (X.open_alos2.__defaults__[1] == {})
    return ok


def alias_ok(top_url: bool, mid_url: bool, leaf_url: bool, via_setitem: bool, n_extra: int, tok: int) -> bool:
    """
    pre: 0 <= n_extra <= 2
    post: _
    """
    a, b, c = "HH", "imagery", "HV_scan1"
    var = Variable("x", [tok, 2], {"u": "m"})
    leaf = Group(None, "leaf-url" if leaf_url else None, {"v": var}, {"k": tok})
    other = Group(None, "other-url", {}, {"o": 2})
    mid_data = {a: leaf, "w": var}
    for i in range(n_extra):
        mid_data[f"extra{i}"] = Group(None, None, {}, {"i": i})
    mid = Group("somewhere", "mid-url" if mid_url else None, mid_data, {"m": 1})
    snap = lambda g: (g.path, g.url, list(g.data), dict(g.attrs))  # noqa: E731
    s_leaf, s_mid, s_other = snap(leaf), snap(mid), snap(other)
    url = "top-url" if top_url else None
    if via_setitem:
        top = Group("/", url, {}, {"t": 1})
        top[b] = mid
    else:
        top = Group("/", url, {b: mid}, {"t": 1})
    top2 = Group("/", "second", {b: mid}, {})  # a later "open" that nests the same objects
    top[c] = other
    ok = (snap(leaf) == s_leaf) & (snap(other) == s_other) & (snap(mid) == s_mid) & (leaf.path == "/") & (mid.path == "somewhere")
    # the copies carry joined paths and inherit the url only where it was missing
    want_mid_url = "mid-url" if mid_url else url
    want_leaf_url = "leaf-url" if leaf_url else want_mid_url
    ok = ok & (top[b].path == "/" + b) & (top[b][a].path == "/" + b + "/" + a) & (top[b].url == want_mid_url) & (top[b][a].url == want_leaf_url)
    ok = ok & (top[c].path == "/" + c) & (top[c].url == "other-url")
    ok = ok & (top2[b].url == ("mid-url" if mid_url else "second")) & (top2[b][a].url == ("leaf-url" if leaf_url else top2[b].url))
    ok = ok & (top[b] is not mid) & (top[b][a] is not leaf) & (list(top[b].data) == list(mid_data)) & (top[b]["w"].data == [tok, 2])
    paths = [p for p, _ in top.subtree]
    ok = ok & (paths == ["/", "/" + b, "/" + b + "/" + a] + [f"/{b}/extra{i}" for i in range(n_extra)] + ["/" + c])
    for p, g in top.subtree:
        ok = ok & (len(g.groups) == 0)
    ok = ok & (list(top.data) == [b, c]) & (len(top) == 2) & (top[b].name == b) & (top.name == "/") & (top[b][a].name == a)
    return ok


# ------------------------------------------------------------------------------------------------ C13


def roles_ok(names: list[str]) -> bool:
    """
    pre: 3 <= len(names) <= 7
    pre: all(len(s) <= 2 for s in names)
    post: _
    """
    keys = [f"ProductFileName{i + 1:02d}" for i in range(len(names))]
    got = SUM.categorize_filenames(dict(zip(keys, names)))
    ok = (got["volume_directory"] == names[0]) & (got["sar_leader"] == names[1]) & (got["sar_trailer"] == names[len(names) - 1])
    ok = ok & (len(got["sar_imagery"]) == len(names) - 3)
    for i in range(2, len(names) - 1):
        ok = ok & (got["sar_imagery"][i - 2] == names[i])
    return ok & (list(got) == ["volume_directory", "sar_leader", "sar_imagery", "sar_trailer"])


def present_ok(mp: bool, has_pp: bool, has_att: bool, year: int) -> bool:
    """
    pre: 2014 <= year <= 2049
    post: _
    """
    names = ["transform_dataset_summary", "transform_map_projection", "transform_platform_position", "transform_attitude",
             "transform_radiometric_data", "transform_data_quality_summary", "transform_record5"]
    saved = {n: getattr(MD, n) for n in names}
    saved["np"] = MD.np
    calls = []

    def mk(name):
        def f(m):
            calls.append((name, m))
            if name == "transform_platform_position":
                return Group(None, None, {}, {"datetime_of_first_point": f"{year:04d}-05-06T00:00:00"})
            if name == "transform_attitude":
                return Group(None, None, {"attitude": Group(None, None, {"time": Variable("points", _TD([3]), {})}, {}),
                                          "rates": Group(None, None, {"time": Variable("points", _TD([4]), {})}, {})}, {})
            return Group(None, None, {}, {"from": name})
        return f

    for n in names:
        setattr(MD, n, mk(n))
    MD.np = _NP
    try:
        mapping = {"file_descriptor": {"x": 1}, "dataset_summary": {"x": 2}, "map_projection": ([{"x": 3}] if mp else [])}
        if has_pp:
            mapping["platform_position"] = {"x": 4}
        if has_att:
            mapping["attitude"] = {"x": 5}
        mapping.update({"radiometric_data": {"x": 6}, "data_quality_summary": {"x": 7},
                        "facility_related_data_1": {"x": 8}, "facility_related_data_2": {"x": 8}, "facility_related_data_3": {"x": 8},
                        "facility_related_data_4": {"x": 8}, "facility_related_data_5": {"x": 9}})
        g = MD.transform_metadata(mapping)  # resolves the (patched) module globals at call time
    finally:
        for n, v in saved.items():
            setattr(MD, n, v)
    want = ["dataset_summary"] + (["map_projection"] if mp else []) + (["platform_position"] if has_pp else []) + (["attitude"] if has_att else [])
    want += ["radiometric_data", "data_quality_summary", "transformations"]
    ok = (list(g.data) == want) & (g.attrs == {})
    for name, m in calls:
        ok = ok & (m == {"x": {"transform_dataset_summary": 2, "transform_map_projection": 3, "transform_platform_position": 4, "transform_attitude": 5,
                                "transform_radiometric_data": 6, "transform_data_quality_summary": 7, "transform_record5": 9}[name]})
    if has_pp and has_att:
        t = g["attitude"]["attitude"]["time"].data
        ok = ok & (t.ref == f"{year:04d}-01-01") & (t.vals == [3]) & (g["attitude"]["rates"]["time"].data.vals == [4])
    elif has_att:
        ok = ok & (g["attitude"]["attitude"]["time"].data.ref is None)
    return ok


class _TD:
    def __init__(self, vals, ref=None):
        self.vals, self.ref = vals, ref

    def __radd__(self, other):
        return _TD(self.vals, other.text)


class _Ref:
    def __init__(self, text):
        self.text = text

    def __add__(self, td):
        return _TD(td.vals, self.text)


class _NP:
    @staticmethod
    def array(text, dtype=None):
        if dtype != "datetime64[ns]":
            raise NotImplementedError(dtype)
        return _Ref(text)


class FakeDataset:
    def __init__(self, variables, attrs=None):
        self.variables, self.attrs = dict(variables), dict(attrs or {})
        self.coords = []

    def pipe(self, f):
        return f(self)

    def set_coords(self, names):
        for n in ([names] if isinstance(names, str) else list(names)):
            if n not in self.variables:
                raise ValueError(f"{n} is not a variable")  # xarray raises for unknown names
            self.coords.append(n)
        return self

    @property
    def dims(self):
        return {}


def coords_ok(n_vars: int, with_attr: bool, names: list[str]) -> bool:
    """
    pre: 0 <= n_vars <= 3 and len(names) <= 3 and all(len(s) <= 2 for s in names)
    pre: len(set(names)) == len(names)
    post: _
    """
    saved = (X.xr, X.to_variable)
    X.xr = type("xr", (), {"Dataset": FakeDataset})
    X.to_variable = lambda v: v
    try:
        variables = {nm: Variable(["rows"], [1], {}) for nm in names}
        coord_names = names[:n_vars]
        attrs = {"a": 1}
        if with_attr:
            attrs["coordinates"] = list(coord_names)
        g = Group("g", None, dict(variables), attrs)
        ds = X.to_dataset(g)
    finally:
        X.xr, X.to_variable = saved
    ok = ("coordinates" not in ds.attrs) & (ds.attrs == {"a": 1}) & (list(ds.variables) == list(names))
    ok = ok & (ds.coords == (list(coord_names) if with_attr else []))
    # the group's own attrs are not consumed by the conversion (a second conversion sees the same tree)
    ok = ok & (("coordinates" in g.attrs) == with_attr)
    return ok


# ------------------------------------------------------------------------------------------------ adapter declaration (C02 / C12)


def adapter_ok(lines: int, pixels: int, token: int) -> bool:
    """
    pre: lines >= 1 and pixels >= 1
    post: _
    """
    from xarray.core import indexing as real_indexing

    class Lock:
        def __init__(self):
            self.events = []

        def __enter__(self):
            self.events.append("acquire")

        def __exit__(self, *a):
            self.events.append("release")
            return False

    class Arr:
        shape = (lines, pixels)
        dtype = "uint16"

        def __init__(self, lock):
            self.lock, self.keys = lock, []

        def __getitem__(self, key):
            self.keys.append((key, list(self.lock.events)))
            return ("loaded", key)

    calls = []

    class Idx:
        IndexingSupport = real_indexing.IndexingSupport
        ExplicitIndexer = real_indexing.ExplicitIndexer

        @staticmethod
        def explicit_indexing_adapter(key, shape, support, raw):
            calls.append((key, shape, support))
            return raw(("basic", key))

    saved = X.indexing
    X.indexing = Idx
    try:
        lock = Lock()
        arr = Arr(lock)
        w = X.LazilyIndexedWrapper(arr, lock)
        out = w[token]
    finally:
        X.indexing = saved
    ok = (len(calls) == 1) & (calls[0][0] == token) & (tuple(calls[0][1]) == (lines, pixels)) & (calls[0][2] is real_indexing.IndexingSupport.BASIC)
    ok = ok & (out == ("loaded", ("basic", token))) & (len(arr.keys) == 1) & (arr.keys[0][1] == ["acquire"]) & (lock.events == ["acquire", "release"])
    return ok


api_gate_adapter_ok = True  # BASIC support is what the C02 proof assumes, not what the property demands


def api_replay_adapter_ok(lines, pixels, token):
    from vlib import api

    runs = [api.indexing_kinds(level, rpc=rpc) for level in ("1.5", "1.1") for rpc in (2, 7)]
    return {"reproduced": any(r["reproduced"] for r in runs), "runs": [r for r in runs if r["reproduced"]][:2]}
