"""Adapter lemmas (datatypes.*._decode), header-attribute presence (sar_image.metadata.extract_attrs), remove_spares predicate,
volume-directory plumbing with symbolic texts  (C03.ad, C03.hdr, C04.ad, C16.plumb, C20.blank, C20.rm).

`int` / `float` are shadowed in the datatypes module by uninterpreted stand-ins (INT(text) / FLOAT(text)): what is decided is the
repository's logic - when a field counts as blank, what exactly is handed to the number parser - not CPython's parsers.
"""
import json
import math
import os

from ceos_alos2 import datatypes as D
from ceos_alos2 import transformers as TR
from ceos_alos2.sar_image import enums as E
from ceos_alos2.sar_image import metadata as IM

import construct as _c  # noqa: E402

P = json.loads(os.environ.get("VH_PARAMS") or "{}")
MAXLEN = P.get("maxlen", 5)
# real adapter instances (the decode methods are instance methods; a refactoring may move shared code into base classes)
_AI, _AF, _PS = D.AsciiInteger(8), D.AsciiFloat(8), D.PaddedString(8)
# python's str.strip() whitespace that can occur in an ASCII-decoded field
WS = " \t\n\r\x0b\x0c\x1c\x1d\x1e\x1f"


class Tok:
    def __init__(self, kind, s):
        self.kind, self.s = kind, s

    def __eq__(self, o):
        return isinstance(o, Tok) and self.kind == o.kind and self.s == o.s

    def __hash__(self):
        return 0

    def __add__(self, o):
        return Tok("add", (self, o))

    def __radd__(self, o):
        return Tok("add", (o, self))

    def __rmul__(self, o):
        return Tok("mul", (o, self))

    def __mul__(self, o):
        return Tok("mul", (self, o))


def _core(s):
    """independent reference for "stripped of padding": index loops, not str.strip"""
    i, j = 0, len(s)
    while i < j and s[i] in WS:
        i += 1
    while j > i and s[j - 1] in WS:
        j -= 1
    return s[i:j]


def _with_number_stubs(f):
    had_int, had_float = "int" in vars(D), "float" in vars(D)
    D.int = lambda x: Tok("int", x)
    D.float = lambda x: Tok("float", x)
    try:
        return f()
    finally:
        if not had_int:
            del D.int
        if not had_float:
            del D.float


def _outcome(f):
    try:
        return ("value", f())
    except ValueError:
        return ("ValueError", None)


def _same_number(a, b):
    if isinstance(a, float) and isinstance(b, float) and a != a and b != b:
        return True
    return (type(a) is type(b)) & (a == b)


def _parsed_like(kind, got, parser, name, text):
    """`got` is what the adapter returned for a field whose text without padding is `text`: the stand-in token if the adapter reached the
    shadowed parser, otherwise (the module binds int/float elsewhere) exactly what CPython's parser gives for the same text"""
    if kind == "value" and isinstance(got, Tok):
        return got == Tok(name, text)
    ref = _outcome(lambda: parser(text))
    if ref[0] != kind:
        return False
    return True if kind == "ValueError" else _same_number(got, ref[1])


def ascii_int_ok(s: str) -> bool:
    """
    pre: len(s) <= MAXLEN and all(ord(c) < 128 for c in s)
    post: _
    """
    kind, got = _outcome(lambda: _with_number_stubs(lambda: _AI._decode(s, None, None)))
    t = _core(s)
    if t == "":
        return (kind == "value") & (got == -1) & isinstance(got, int)
    return _parsed_like(kind, got, int, "int", t)


def ascii_float_ok(s: str) -> bool:
    """
    pre: len(s) <= MAXLEN and all(ord(c) < 128 for c in s)
    post: _
    """
    kind, got = _outcome(lambda: _with_number_stubs(lambda: _AF._decode(s, None, None)))
    t = _core(s)
    return _parsed_like(kind, got, float, "float", "nan" if t == "" else t)


def padded_string_ok(s: str) -> bool:
    """
    pre: len(s) <= MAXLEN and all(ord(c) < 128 for c in s)
    post: _
    """
    got = _PS._decode(s, None, None)
    return (got == _core(s)) & isinstance(got, str)


def ascii_blank_ok(n: int, kind: int) -> bool:
    """
    pre: 0 <= n <= 22 and 0 <= kind <= 2
    post: _
    """
    # every all-blank field of every width used in the format (0..22) and of every blank character class
    ok = True
    for ch in (" ", "\t", "\n"):
        s = ch * n
        if kind == 0:
            got = _AI._decode(s, None, None)
            ok = ok & (got == -1) & isinstance(got, int)
        elif kind == 1:
            got = _AF._decode(s, None, None)
            ok = ok & isinstance(got, float) & (got != got)
        else:
            ok = ok & (_PS._decode(s, None, None) == "")
    return ok


def simple_adapters_ok(x: int, f: int, flag: int) -> bool:
    """
    pre: 0 <= flag < 2**32
    post: _
    """
    ok = (D.Factor(_c.Int32ub, f)._decode(x, None, None) == x * f)
    got = D.Metadata(_c.Int32ub, units="m")._decode(x, None, None)
    ok = ok & isinstance(got, tuple) & (len(got) == 2) & (got[0] == x) & (got[1] == {"units": "m"})
    ok = ok & (E.Flag(4)._decode(flag, None, None) == (flag != 0))
    ok = ok & (D.StripNullBytes(_c.Bytes(5))._decode(b"\x00ab\x00\x00", None, None) == b"ab") & (D.StripNullBytes(_c.Bytes(2))._decode(b"\x00\x00", None, None) == b"")
    return ok


class _Fac:
    def __init__(self, f):
        self.factor = f


class _Meta:
    def __init__(self, attrs):
        self.attrs = attrs


# ------------------------------------------------------------------------------------------------ header attributes (C03 / C20)


def _header(rng, burst, lines, overlap, interleaving):
    return {
        "preamble": {"record_length": 720},
        "number_of_sar_data_records": 3, "sar_data_record_length": 100, "spare1": "",
        "sar_related_data_in_the_record": {"number_of_lines_per_dataset": 3, "number_of_data_groups_per_line": 4, "interleaving_id": interleaving,
                                           "number_of_bytes_per_data_group": 2, "blanks": ""},
        "prefix_suffix_data_locators": {"sar_data_format_type_code": "IU2", "maximum_data_range_of_pixel": rng,
                                        "number_of_burst_data": burst, "number_of_lines_per_burst": lines},
        "scansar_burst_data_information": {"number_of_overlap_lines_with_adjacent_bursts": overlap, "blanks": ""},
    }


def header_attrs_ok(rng: int, burst: int, lines: int, overlap: int, inter_blank: bool) -> bool:
    """
    pre: rng >= -1 and burst >= -1 and lines >= -1 and overlap >= -1
    post: _
    """
    # header-derived attributes are present exactly when the header field is non-blank (-1 = blank integer, '' = blank text),
    # with its value; nothing else of the header surfaces
    interleaving = "" if inter_blank else "BSQ"
    got = IM.extract_attrs(_header(rng, burst, lines, overlap, interleaving))
    want = {}
    if not inter_blank:
        want["interleaving_id"] = "BSQ"
    if rng != -1:
        want["valid_range"] = [0, rng]
    if burst != -1:
        want["number_of_burst_data"] = burst
    if lines != -1:
        want["number_of_lines_per_burst"] = lines
    if overlap != -1:
        want["number_of_overlap_lines_with_adjacent_bursts"] = overlap
    ok = (sorted(got) == sorted(want))  # (order is asserted by the concrete twin: CrossHair's dict model may reorder)
    for k in want:
        ok = ok & (k in got) & (got.get(k) == want[k])
    return ok


def header_flow_ok(rng: int, burst: int, lines: int, overlap: int, inter_blank: bool, complex_samples: bool) -> bool:
    """
    pre: rng >= -1 and burst >= -1 and lines >= -1 and overlap >= -1
    post: _
    """
    # the same, one level up: the image group built by transform_metadata carries exactly these header attributes (next to the
    # per-line attributes and the coordinates list) for BOTH sample types - a filled field is never dropped on the way
    import datetime

    interleaving = "" if inter_blank else "BSQ"
    header = _header(rng, burst, lines, overlap, interleaving)
    header["prefix_suffix_data_locators"]["sar_data_format_type_code"] = "C*8" if complex_samples else "IU2"
    recs = [{"sar_image_data_line_number": i + 1, "data": {"start": 720 + 100 * i + 60, "stop": 720 + 100 * (i + 1)},
             "sensor_acquisition_date": datetime.datetime(2020, 2, 29, 0, 0, i), "sar_channel_id": 1} for i in range(2)]
    group, array_metadata = IM.transform_metadata(header, recs)
    got = group.attrs
    want = {}
    if not inter_blank:
        want["interleaving_id"] = "BSQ"
    if rng != -1:
        want["valid_range"] = [0, rng]
    if burst != -1:
        want["number_of_burst_data"] = burst
    if lines != -1:
        want["number_of_lines_per_burst"] = lines
    if overlap != -1:
        want["number_of_overlap_lines_with_adjacent_bursts"] = overlap
    ok = True
    for k in ("interleaving_id", "valid_range", "number_of_burst_data", "number_of_lines_per_burst", "number_of_overlap_lines_with_adjacent_bursts"):
        ok = ok & ((k in got) == (k in want))
        if k in want:
            ok = ok & (got.get(k) == want[k])
    return ok & (array_metadata["type_code"] == ("C*8" if complex_samples else "IU2")) & (tuple(array_metadata["shape"]) == (3, 4))


def finding_key_header_attrs_ok(rng, burst, lines, overlap, inter_blank):
    got = IM.extract_attrs(_header(rng, burst, lines, overlap, "" if inter_blank else "BSQ"))
    keys = []
    if rng == -1 and "valid_range" in got:
        keys.append("blank maximum_data_range_of_pixel -> valid_range")
    if inter_blank and "interleaving_id" in got:
        keys.append("blank interleaving_id -> attribute ''")
    return "C03.hdr:" + (";".join(keys) if keys else "other")


def api_replay_header_attrs_ok(rng, burst, lines, overlap, inter_blank):
    import ceos_alos2
    from vlib import api

    def run(root, datas):
        tree = ceos_alos2.open_alos2(root, backend_options={"use_cache": False})
        attrs = dict(tree["imagery/HH"].attrs)
        bad = []
        if rng == -1 and "valid_range" in attrs:
            bad.append(f"valid_range={attrs['valid_range']!r} although maximum_data_range_of_pixel is blank")
        if inter_blank and "interleaving_id" in attrs:
            bad.append(f"interleaving_id={attrs['interleaving_id']!r} although the field is blank")
        for name, v in (("number_of_burst_data", burst), ("number_of_lines_per_burst", lines), ("number_of_overlap_lines_with_adjacent_bursts", overlap)):
            if (v == -1) == (name in attrs) or (v != -1 and attrs.get(name) != v):
                bad.append(f"{name}: field {v} -> {attrs.get(name, '<absent>')!r}")
        if rng != -1 and list(attrs.get("valid_range", [])) != [0, rng]:
            bad.append(f"valid_range {attrs.get('valid_range')!r} for field {rng}")
        return {"reproduced": bool(bad), "detail": bad}

    txt = lambda v, w: "" if v == -1 else str(min(v, 10**w - 1))  # noqa: E731
    header = {"sar_related_data_in_the_record": {"interleaving_id": "" if inter_blank else "BSQ"},
              "prefix_suffix_data_locators": {"maximum_data_range_of_pixel": txt(rng, 8), "number_of_burst_data": txt(burst, 4),
                                              "number_of_lines_per_burst": txt(lines, 4)},
              "scansar_burst_data_information": {"number_of_overlap_lines_with_adjacent_bursts": txt(overlap, 4)}}
    return api.with_product(run, level="1.5", n=2, p=3, pols=("HH",), image_kw={"header": header})


# ------------------------------------------------------------------------------------------------ remove_spares (C20.rm)


PREFIXES = ["spare", "blanks", "spar", "blank", "spares", "x", "", "sparespare", "1spare"]


ALPHA = ["", "0", "9", "5", "/", ":", "a", "_", "s", " ", "e1", "10"]  # digit range boundaries ('/' < '0', '9' < ':'), letters, blank


def remove_spares_ok(prefix_idx: int, i: int, j: int) -> bool:
    """
    pre: 0 <= prefix_idx < len(PREFIXES) and 0 <= i < len(ALPHA) and 0 <= j < len(ALPHA)
    post: _
    """
    # dictionary keys are hashed (a C boundary), so the key is composed from representative pieces selected by symbolic indices
    key = PREFIXES[prefix_idx] + ALPHA[i] + ALPHA[j]
    out = TR.remove_spares({key: 1, "keep": {key: 2, "x": [{key: 3, "y": 4}]}})
    # reference: removed iff the key is 'spare' or 'blanks' followed by decimal digits only
    removed = False
    for prefix in ("spare", "blanks"):
        if key[:len(prefix)] == prefix:
            digits = True
            for c in key[len(prefix):]:
                if c not in "0123456789":
                    digits = False
            if digits:
                removed = True
    if key in ("keep", "x", "y"):
        return True
    if key[:11] == "spareblanks":
        return True  # outside: the code strips both prefixes in a row; no field of the format is named like that
    ok = ((key in out) != removed) & ((key in out["keep"]) != removed) & ((key in out["keep"]["x"][0]) != removed)
    return ok & (out["keep"]["x"][0]["y"] == 4) & ("x" in out["keep"])


# ------------------------------------------------------------------------------------------------ volume directory (C16)

VOL_MAP = [
    ("control_document_id", "volume_descriptor", "superstructure_format_control_document_id"),
    ("control_document_revision_level", "volume_descriptor", "superstructure_format_control_document_revision_level"),
    ("record_format_revision_level", "volume_descriptor", "superstructure_record_format_revision_level"),
    ("software_version", "volume_descriptor", "software_release_and_revision_level"),
    ("physical_volume_id", "volume_descriptor", "physical_volume_id"),
    ("logical_volume_id", "volume_descriptor", "logical_volume_id"),
    ("volume_set_id", "volume_descriptor", "volume_set_id"),
    ("creation_country", "volume_descriptor", "logical_volume_generation_country"),
    ("creation_agency", "volume_descriptor", "logical_volume_generating_agency"),
    ("creation_facility", "volume_descriptor", "logical_volume_generating_facility"),
    ("product_id", "text_record", "product_id"),
    ("product_creation", "text_record", "location_and_datetime_of_product_creation"),
    ("scene_id", "text_record", "scene_id"),
    ("scene_location_id", "text_record", "scene_location_id"),
]
VOL_IGNORED = [("volume_descriptor", "spare"), ("volume_descriptor", "local_use_segment"), ("volume_descriptor", "ascii_ebcdic_flag"),
               ("text_record", "physical_tape_id"), ("text_record", "blanks")]


def _vol_docs():
    from vlib import plumbspec as PS

    return [PS.prepared("volume.fp0")[1], PS.prepared("volume.fp3")[1]]


_VOL_DOCS = _vol_docs()  # parsed by the real parser at import time


def volume_ok(s0: str, s1: str, s2: str, s3: str, s4: str, s5: str, s6: str, s7: str, s8: str, s9: str, s10: str, s11: str, s12: str, s13: str,
              g0: str, g1: str, fp: bool) -> bool:
    """
    pre: all(len(s) <= 2 for s in (s0, s1, s2, s3, s4, s5, s6, s7, s8, s9, s10, s11, s12, s13, g0, g1))
    post: _
    """
    from vlib import plumbspec as PS

    vals = [s0, s1, s2, s3, s4, s5, s6, s7, s8, s9, s10, s11, s12, s13]
    base = _VOL_DOCS[1 if fp else 0]
    with PS.no_tracing():
        doc = {k: (dict(v) if isinstance(v, dict) else v) for k, v in base.items()}
        for (name, rec, field), val in zip(VOL_MAP, vals):
            doc[rec][field] = val
        for (rec, field), val in zip(VOL_IGNORED, [g0, g1, g0, g1, g0]):
            doc[rec][field] = val
    group = PS.variants()["volume.fp3"]["transform"](doc)
    attrs = group.attrs
    ok = (len(group.data) == 0) & (sorted(attrs) == sorted([m[0] for m in VOL_MAP] + ["creation_datetime"]))
    for (name, rec, field), val in zip(VOL_MAP, vals):
        got = attrs.get(name)
        ok = ok & ((got is val) or (got == val))
    return ok & (attrs.get("creation_datetime") == "2020-02-29T12:34:56.780000")


def volume_inner_ok(a: str, b: str, gap: int, which: int, fp: bool) -> bool:
    """
    pre: len(a) == 1 and len(b) == 1 and a != " " and b != " " and 0 <= gap <= 3 and 0 <= which < 14
    post: _
    """
    # a value with a run of 0..3 blanks INSIDE (what is left after the adapter stripped the padding) surfaces unchanged, in every field
    from vlib import plumbspec as PS

    val = a + " " * gap + b
    base = _VOL_DOCS[1 if fp else 0]
    with PS.no_tracing():
        doc = {k: (dict(v) if isinstance(v, dict) else v) for k, v in base.items()}
    name, rec, field = VOL_MAP[which]
    doc[rec][field] = val
    attrs = PS.variants()["volume.fp3"]["transform"](doc).attrs
    got = attrs.get(name)
    return (got is val) or (got == val)

