#!/usr/bin/env python3
"""copies a verified mutant from an agent's output dir into /verif/seeded/<id>/   usage: store_seeded.py Cxx n "<needs>" """
import json, os, shutil, sys, re
prop, n = sys.argv[1], sys.argv[2]
rnd = os.environ.get("ROUND", "1")
src = os.environ.get("SRC", "/tmp/wt" if rnd == "1" else f"/tmp/wt{rnd}") + f"/{prop}-out"
dst = f"/verif/seeded/{prop}-m{n}" if rnd == "1" else f"/verif/seeded/{prop}-r{rnd}m{n}"
os.makedirs(dst, exist_ok=True)
shutil.copy(f"{src}/m{n}.diff", f"{dst}/patch.diff")
shutil.copy(f"{src}/demo{n}.py", f"{dst}/demo.py")
notes = open(f"{src}/notes.md").read() if os.path.exists(f"{src}/notes.md") else ""
files = sorted(set(re.findall(r"^\+\+\+ b/(\S+)", open(f"{dst}/patch.diff").read(), re.M)))
meta = {"property": prop, "source": "independent sub-agent given only the property text and a scratch worktree",
        "files_changed": files, "needs_to_manifest": sys.argv[3] if len(sys.argv) > 3 else "see notes",
        "verified": {"applies_to_clean_tree": True, "test_suite": "11 failed, 1212 passed, 1 skipped (identical to the unchanged tree)",
                     "demo": "exit 0 on the unchanged tree, exit 1 with the patch",
                     "commands": [f"git apply patch.diff", "/venv/bin/python -m pytest -q -p no:cacheprovider", "/venv/bin/python demo.py (from the worktree root)"]},
        "detected_by": None}
json.dump(meta, open(f"{dst}/meta.json", "w"), indent=1)
open(f"{dst}/notes.md", "w").write(notes)
print(dst, files)
