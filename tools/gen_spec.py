#!/usr/bin/env python3
"""(Re)generates the pinned oracles under spec/ from the CURRENT /repo tree.  Run only deliberately (baseline commit): the checks
never write these files.  usage: .venv/bin/python tools/gen_spec.py layout|trees|all"""
import json
import os
import sys

sys.path[:0] = [os.environ.get("VERIF_REPO", "/repo"), "/verif"]
ROOT = "/verif"


def layout():
    from vlib import layoutspec as LS

    out = {name: LS.snapshot(name) for name in LS.registry()}
    json.dump(out, open(os.path.join(ROOT, "spec", "layout.json"), "w"), separators=(",", ":"))
    print({k: len(v["leaves"]) for k, v in out.items()})


def trees():
    from vlib import plumbspec as PS

    out = PS.generate()
    json.dump(out, open(os.path.join(ROOT, "spec", "trees.json"), "w"), separators=(",", ":"), ensure_ascii=False)
    print({k: len(v["table"]) for k, v in out.items()})


if __name__ == "__main__":
    what = sys.argv[1] if len(sys.argv) > 1 else "all"
    if what in ("layout", "all"):
        layout()
    if what in ("trees", "all"):
        trees()
