#!/bin/bash
# runs the repository's pinned test suite with the verification guard OFF and compares with BASELINE.json's stable_pass list
unset UMR_LOPS_XARRAY_CEOS_ALOS2_VERIF
OUT=$(mktemp /tmp/baseline.XXXXXX.xml)
cd /repo && /venv/bin/python -m pytest -ra -q -p no:cacheprovider --timeout=900 --continue-on-collection-errors --junitxml="$OUT" >/dev/null 2>&1
python3 - "$OUT" <<'PY'
import json, sys, xml.etree.ElementTree as ET
base = set(json.load(open('/root/.vp/BASELINE.json'))['stable_pass'])
passed = set()
for tc in ET.parse(sys.argv[1]).getroot().iter('testcase'):
    if not any(ch.tag in ('failure', 'error', 'skipped') for ch in tc):
        passed.add(f"{tc.get('classname')}::{tc.get('name')}")
missing = sorted(base - passed)
print(f"baseline stable_pass={len(base)} passed_now={len(passed)} missing={len(missing)}")
for m in missing[:20]: print("  MISSING", m)
sys.exit(1 if missing else 0)
PY
rc=$?; rm -f "$OUT"; exit $rc
