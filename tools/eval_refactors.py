#!/usr/bin/env python3
"""false-alarm experiment: every behaviour-preserving refactoring under refactors/<id>/patch.diff is applied in a throw-away worktree and the
checks of the properties it touches are run; none may print a VIOLATION (exit 1).  usage: tools/eval_refactors.py [--jobs=N] [id ...]"""
import concurrent.futures as cf
import json
import os
import re
import subprocess
import sys

ROOT = os.path.dirname(os.path.dirname(os.path.abspath(__file__)))
PROPS = {"C01": ["C01", "C02", "C06", "C11", "C18"], "C11": ["C11", "C01", "C02"], "C13": ["C13", "C10", "C14", "C12"], "C19": ["C19", "C02", "C06", "C12"],
         "C07": ["C07", "C09", "C10", "C08", "C01"], "C04": ["C04", "C20", "C03", "C16", "C05"], "C03": ["C03", "C20", "C12", "C07", "C17"], "C14": ["C14", "C15", "C13"],
         "C17": ["C17", "C03", "C04", "C16"], "C12": ["C12", "C03", "C04", "C13", "C10"], "C05": ["C05", "C04", "C16", "C18", "C20"], "C20": ["C20", "C04", "C03", "C16", "C05"],
         "C08": ["C08", "C07", "C09", "C10"], "C02": ["C02", "C01", "C11", "C06", "C12"]}


# second round (-s2rN): the properties whose checks touch the refactored code
PROPS2 = {"C19": ["C19", "C02", "C01", "C11", "C12"], "C14": ["C14", "C15", "C13"]}


def props_for(rid):
    own = rid.split("-")[0]
    if "-s2" in rid:
        return PROPS2.get(own) or PROPS.get(own) or [own]
    return PROPS.get(own, [own])


def run(rid, prop):
    env = dict(os.environ, SCRATCH="1", WIDTH="300")
    p = subprocess.run([os.path.join(ROOT, "tools", "try_patch.sh"), os.path.join(ROOT, "refactors", rid, "patch.diff"), "--", prop], capture_output=True, text=True, env=env)
    rc = re.search(r"rc=(\d+)", p.stdout)
    obs = re.findall(r"\[(violated|inconclusive)\s*\]\s+(\S+)", p.stdout)
    return rid, prop, int(rc.group(1)) if rc else -1, [o for k, o in obs if k == "violated"], [o for k, o in obs if k == "inconclusive"]


def main():
    args = [a for a in sys.argv[1:] if not a.startswith("--")]
    jobs = int(next((a.split("=")[1] for a in sys.argv[1:] if a.startswith("--jobs=")), "3"))
    ids = args or sorted(d for d in os.listdir(os.path.join(ROOT, "refactors")) if os.path.isdir(os.path.join(ROOT, "refactors", d)))
    tasks = [(rid, prop) for rid in ids for prop in props_for(rid)]
    out = {}
    with cf.ThreadPoolExecutor(jobs) as ex:
        for rid, prop, rc, viol, inc in ex.map(lambda t: run(*t), tasks):
            out.setdefault(rid, {})[prop] = {"exit": rc, "violated": viol[:4], "inconclusive": inc[:4]}
            print(rid, prop, rc, viol[:3], inc[:3], flush=True)
    path = os.path.join(ROOT, "refactors", "results.json")
    merged = json.load(open(path)) if os.path.exists(path) else {}
    merged.update(out)
    json.dump(merged, open(path, "w"), indent=1, sort_keys=True)
    alarms = [(r, p) for r, d in out.items() for p, v in d.items() if v["exit"] == 1]
    print("FALSE ALARMS:", alarms or "none")


if __name__ == "__main__":
    main()
