#!/bin/bash
# usage: tools/try_patch.sh <patch-file> [-R] -- <Cxx> [<Cyy> ...]
# Runs the quick (or $TIER) checks against the repository with the patch applied and prints the verdict lines.
# Default: applies the patch to /repo itself and restores it afterwards (git checkout -- .).
# With SCRATCH=1: uses a throw-away git worktree of /repo's HEAD under /tmp (VERIF_REPO points the checks at it), so /repo is untouched
# and several patches can be evaluated side by side; evidence/replays of such runs go to a private VERIF_OUT directory.
patch="$(readlink -f "$1")"; shift
rev=""
if [ "$1" = "-R" ]; then rev="-R"; shift; fi
[ "$1" = "--" ] && shift
if [ -n "$SCRATCH" ]; then
  wt=$(mktemp -d /tmp/vscratch.XXXXXX); rmdir "$wt"
  git -C /repo worktree add -q --detach "$wt" HEAD || exit 2
  trap 'git -C /repo worktree remove --force "$wt" >/dev/null 2>&1; rm -rf "$VERIF_OUT"' EXIT
  export VERIF_REPO="$wt" VERIF_OUT=$(mktemp -d /tmp/vout.XXXXXX)
else
  wt=/repo
  if [ -n "$(git -C /repo status --porcelain --untracked-files=no)" ]; then echo "/repo not clean" >&2; exit 2; fi
  trap 'git -C /repo checkout -- .' EXIT
fi
git -C "$wt" apply $rev "$patch" || { echo "patch does not apply" >&2; exit 2; }
cd /verif
for p in "$@"; do
  out=$(./check "$p" ${TIER:-quick} 2>&1)
  rc=$?
  echo "== $p rc=$rc"
  echo "$out" | grep -E "VIOLATION|KNOWN-FINDING|INCONCLUSIVE|violated|inconclusive  \]| exit=" | cut -c1-${WIDTH:-400}
done
