#!/bin/bash
# usage: tools/try_patch.sh <patch-file> [-R] -- <Cxx> [<Cyy> ...]     applies the patch to /repo, runs the quick checks, restores /repo
patch="$1"; shift
rev=""
if [ "$1" = "-R" ]; then rev="-R"; shift; fi
[ "$1" = "--" ] && shift
cd /repo || exit 2
if [ -n "$(git status --porcelain --untracked-files=no)" ]; then echo "/repo not clean" >&2; exit 2; fi
git apply $rev "$patch" || { echo "patch does not apply" >&2; exit 2; }
cd /verif
for p in "$@"; do
  out=$(./check "$p" ${TIER:-quick} 2>&1)
  rc=$?
  echo "== $p rc=$rc"
  echo "$out" | grep -E "VIOLATION|KNOWN-FINDING|INCONCLUSIVE|violated|inconclusive  \]| exit=" | cut -c1-400
done
git -C /repo checkout -- . 
