#!/usr/bin/env python3
"""regenerates MANIFEST.json from the table below + the property modules that exist under props/"""
import json
import os

ROOT = os.path.dirname(os.path.dirname(os.path.abspath(__file__)))
TECH = {
    "C01": ("CrossHair/z3 symbolic execution of the metadata pass, open_image and Array loads; z3 LIA on live record layouts; z3 FP/BV on parse_data via numeric proxies",
            "contract stubs for fsspec/construct/numpy, validated each run; n, rpc enumerated; H, L, pixels unbounded"),
    "C02": ("CrossHair/z3 symbolic execution of Array.__getitem__ for symbolic slice bounds against numpy basic-indexing semantics, single selections and sequences of selections on one array",
            "xarray adapter contract (basic keys only reach the backend); image sizes, rpc, steps enumerated"),
    "C05": ("z3 linear integer arithmetic over terms obtained by interpreting the live construct layouts symbolically; CrossHair on read_sar_trailer",
            "interpreter's construct class models (conformance-checked each run); pinned fixed record sizes"),
    "C06": ("CrossHair/z3: rpc-free closed forms for byte ranges and loaded spans for every enumerated rpc; unbounded proof of the encoding rule",
            "same stubs as C01; n, rpc enumerated except the encoding obligation"),
    "C11": ("CrossHair/z3 symbolic execution against a logging abstract filesystem; assertions on the request log",
            "fsspec file contract; n, rpc, steps enumerated; offsets/sizes symbolic"),
    "C03": ("z3 LIA over the live construct layouts vs the pinned layout (unbounded record length); CrossHair/z3 symbolic execution of the real image metadata transformers on parsed documents with symbolic field values; adapter and header-attribute lemmas",
            "pinned layout/tree tables are regression oracles audited against independent anchors; 1-3 lines; order asserted by a concrete twin"),
    "C04": ("z3 LIA: 956 leader fields vs pinned linear offsets for all structure parameters; CrossHair/z3 on the ASCII adapters for all strings up to the bound and on the real leader transformers with ~480 symbolic field values x 7 structure variants",
            "int()/float() uninterpreted; pinned tables are regression oracles with 16 independent CEOS anchors"),
    "C12": ("CrossHair/z3 on LazilyIndexedWrapper/Array (declared dtype and shape for symbolic header shapes, empty selections) and on the real transformers with symbolic field values followed by a type-discipline walk; concrete witness replays through open_alos2",
            "structure variants enumerated; xarray's list->array conversion trusted"),
    "C13": ("CrossHair/z3 symbolic execution of io.open/open_alos2 wiring (symbolic options, enumerated image orders), group naming, file roles, record-group presence and coordinate decoding",
            "sub-openers are recording stand-ins in the assembly obligation; DataTree.from_dict/set_coords trusted"),
    "C14": ("z3 over a bounded priority matcher executing the compiled entry_re (captures under Python's backtracking order) vs an independent grammar; z3 string theory: live code tables equal the pinned documented tables as functions over all strings; CrossHair/z3 on parse_summary with a symbolic validity oracle and on the section transformers with symbolic texts",
            "lines up to 16/24 code points; int()/float() uninterpreted; splitlines trusted"),
    "C19": ("z3 search over all interleavings of recorded event programs (file handles, locks, shared-attribute accesses) of 2-3 real loads (own-handle and shared-handle filesystems, slice and list selections, pickled copies, a failing load) for a hazardous or deadlocking schedule; replay with real threads gated in the solver's order",
            "event programs recorded sequentially from the real code on an instrumented filesystem; programs assumed schedule-independent"),
    "C16": ("z3 LIA on the live volume-directory layout for every file-pointer count; CrossHair/z3 on PaddedString and on the real volume transformers with symbolic texts",
            "pinned layout; strings bounded; timestamp format shared with C17"),
    "C20": ("CrossHair/z3 on the blank-field adapters and header attributes; sentinel flow = plumbing obligations for all integer values; z3 tiling proof, z3 LIA query that no live value field overlaps a pinned spare byte range for any structure parameters, pinned-table check that spare areas never reach the tree; remove_spares on symbolic keys",
            "spare areas identified by name; numeric leaves as integers"),
    "C07": ("CrossHair/z3 symbolic execution of open_image / read_cache / create_cache / cli.create_cache / array codec on a world model with symbolic cache state, options and product protocol; concrete end-to-end witness replays",
            "json, pathlib, hashlib, fsspec, construct record parsing are contract stubs (validated each run); geometry and rpc enumerated per instance"),
    "C08": ("CrossHair/z3 symbolic execution of the real encoders/decoders over an integer model of numpy (int64 wrap, NaT, units) and a structural json contract: round trip decided for all element values (incl. float64 rounding of integer counts, uint64 casts); complete enumeration of the element-free shapes",
            "numpy and json are models validated against the real libraries through the real codec each run; |time values| < 2**62; float/str element conversion trusted"),
    "C09": ("CrossHair/z3 symbolic execution of the cache glue with both index locations symbolic over absent/complete/torn-at-k (k, length symbolic)",
            "interrupted writes are modelled by the prefixes they leave; json prefix lemma validated on every prefix of a real document each run"),
    "C10": ("CrossHair/z3: one inductive step of a symbolic operation from an arbitrary state satisfying the cache invariant; option threading and aliasing decided on symbolic options",
            "induction over histories by invariant preservation; sub-openers are stand-ins in the option-threading obligation"),
    "C18": ("CrossHair/z3 with symbolic file size and symbolic file names; z3 tiling proof on live layouts",
            "record length concrete per instance; xarray dimension check and construct short-read behaviour are contracts"),
    "C15": ("z3 string/regular-expression theory: language inclusion both ways between the compiled patterns as applied (Unicode-aware classes) and the language composed from the pinned code tables; "
            "fixed group widths; complete enumeration of the finite date domain through the real decoders; CrossHair/z3 on the group-name derivation",
            "dateutil / strptime calendar validity as a regular language contract; tables pinned in spec/code_tables.json"),
    "C17": ("CrossHair/z3 symbolic execution of the real time adapters and attitude/leader time transformers over all years, days and (milli/micro)seconds against integer calendar arithmetic; "
            "z3 over numeric proxies of timedelta rounding and datetime64 units; z3 LIA on the offsets/widths of the 14 time-bearing fields of the live layouts",
            "numpy datetime64/timedelta64 arithmetic and timedelta rounding are integer models validated against the libraries each run; years 2014-2049"),
}
DEFAULT = ("bounded symbolic verification of the real code by SMT", "see evidence assumptions")
REASONS = {}


def main():
    ids = [f"C{i:02d}" for i in range(1, 21)]
    have = [i for i in ids if os.path.exists(os.path.join(ROOT, "props", i.lower() + ".py"))]
    na_path = os.path.join(ROOT, "spec", "not_applicable.json")
    na = json.load(open(na_path)) if os.path.exists(na_path) else {}
    checks = []
    for i in have:
        if i in na:
            continue
        tech, note = TECH.get(i, DEFAULT)
        checks.append({
            "property_id": i, "quick_cmd": f"./check {i} quick", "thorough_cmd": f"./check {i} thorough",
            "evidence_file": f"/verif/evidence/{i}.json", "replay_cmd_template": f"./check {i} --replay {{path}}", "engine": "check",
            "level_claimed": {"category": "other", "text": "bounded symbolic verification of the real code by SMT: every obligation is decided by z3 (directly or "
                              "through CrossHair) for all values of its symbolic variables inside the bounds listed per obligation in the evidence; "
                              "counterexamples are replayed on the real code before they are reported", "design_ref": f"DESIGN.md section 5 / {i}"},
            "level_note": note, "technique": tech,
        })
    m = {
        "version": 1, "setup_cmd": "./setup.sh",
        "hooks": {"guard": "UMR_LOPS_XARRAY_CEOS_ALOS2_VERIF",
                  "enable": "no source hooks: all instrumentation is monkey-patching inside the harness processes; ./check exports the guard for symmetry",
                  "baseline_off_cmd": "/verif/tools/baseline.sh", "source_commits": [], "add_only": True},
        "engines": [{"name": "check", "path": "/verif/check", "serves_properties": [c["property_id"] for c in checks],
                     "kind_free_text": "solver-based checking: CrossHair 0.0.110 / z3 5.1 symbolic execution of the real functions (engine X), z3 over the live construct "
                                       "layouts (L), compiled regexes and code tables (R), numeric proxies (N) and schedules (S); cvc5 / z3 4.8 cross-checks in the thorough tier"}],
        "checks": checks,
        "notes": "Exit codes: 0 property held on everything explored (KNOWN-FINDING lines for listed findings), 1 VIOLATION (reproduced counterexample), "
                 "3 inconclusive (timeout/unknown/non-reproducing counterexample; never reported as success). Known findings: spec/known_findings.json.",
        "not_applicable": [{"property_id": i, "reason": na.get(i, "check not built yet (work in progress)")} for i in ids if i not in [c["property_id"] for c in checks]],
    }
    json.dump(m, open(os.path.join(ROOT, "MANIFEST.json"), "w"), indent=1)
    print("checks:", [c["property_id"] for c in checks])


if __name__ == "__main__":
    main()
