#!/usr/bin/env python3
"""runs every seeded change against the check of its property (scratch worktree; /repo untouched), records the outcome in seeded/<id>/meta.json
and prints the markdown table used in DESIGN.md.   usage: tools/eval_all_seeded.py [id ...] [--jobs N]"""
import concurrent.futures as cf
import json
import os
import re
import subprocess
import sys

ROOT = os.path.dirname(os.path.dirname(os.path.abspath(__file__)))
EXTRA = {"C13-m1": ["C07", "C10"], "C13-m2": ["C15"], "C20-m1": ["C03"], "C20-m2": ["C04"], "C16-m2": ["C17"], "C03-m1": ["C17"], "C10-m1": ["C07"], "C15-m1": ["C13"],
         "C06-m2": ["C07"], "C18-m1": ["C01"], "C12-m2": ["C02"], "C12-m1": ["C02"]}


def run(sid, prop):
    env = dict(os.environ, SCRATCH="1", WIDTH="300")
    p = subprocess.run([os.path.join(ROOT, "tools", "try_patch.sh"), os.path.join(ROOT, "seeded", sid, "patch.diff"), "--", prop], capture_output=True, text=True, env=env)
    rc = re.search(r"rc=(\d+)", p.stdout)
    obs = re.findall(r"\[(violated|inconclusive)\s*\]\s+(\S+)", p.stdout)
    return sid, prop, int(rc.group(1)) if rc else -1, [o for k, o in obs if k == "violated"], [o for k, o in obs if k == "inconclusive"]


def main():
    args = [a for a in sys.argv[1:] if not a.startswith("--")]
    jobs = int(next((a.split("=")[1] for a in sys.argv[1:] if a.startswith("--jobs=")), "2"))
    ids = args or sorted(os.listdir(os.path.join(ROOT, "seeded")))
    tasks = []
    for sid in ids:
        own = sid.split("-")[0]
        for prop in [own] + (EXTRA.get(sid, []) if "--extra" in sys.argv else []):
            tasks.append((sid, prop))
    results = {}
    with cf.ThreadPoolExecutor(jobs) as ex:
        for sid, prop, rc, viol, inc in ex.map(lambda t: run(*t), tasks):
            results.setdefault(sid, {})[prop] = {"exit": rc, "violated": viol[:8], "inconclusive": inc[:4]}
            print(sid, prop, rc, viol[:4], flush=True)
    for sid, r in results.items():
        mp = os.path.join(ROOT, "seeded", sid, "meta.json")
        meta = json.load(open(mp))
        det = meta.get("detected_by") or {}
        det.update(r)
        meta["detected_by"] = det
        meta["what_i_ran"] = "SCRATCH=1 tools/try_patch.sh seeded/%s/patch.diff -- <property>  (quick tier; exit 1 + VIOLATION line = detected)" % sid
        json.dump(meta, open(mp, "w"), indent=1)


if __name__ == "__main__":
    main()
