#!/bin/bash
# usage: tools/run_tier.sh quick|thorough [Cxx ...]   - runs the registered command of every (or the given) property once, sequentially, on /repo
# and prints one line per property: exit code, wall time, summary line
cd "$(dirname "$0")/.."
tier="${1:-quick}"; shift
props=("$@"); [ ${#props[@]} -eq 0 ] && props=(C01 C02 C03 C04 C05 C06 C07 C08 C09 C10 C11 C12 C13 C14 C15 C16 C17 C18 C19 C20)
for p in "${props[@]}"; do
  s=$(date +%s)
  out=$(./check "$p" "$tier" 2>&1); rc=$?
  echo "$p $tier rc=$rc wall=$(( $(date +%s) - s ))s $(echo "$out" | tail -1 | cut -c1-150)"
  [ $rc -ne 0 ] && echo "$out" | grep -E "violated|inconclusive|VIOLATION|INCONCLUSIVE|HARNESS" | cut -c1-300
done
