#!/usr/bin/env python3
"""prints the cost table of DESIGN.md section 10 from two logs of tools/run_tier.sh   usage: cost_table.py <quick.log> <thorough.log>"""
import re
import sys

WHAT = {"C01": "`C01.get.n4` (CrossHair, row lists)", "C02": "CrossHair instances over `(n, rpc)` + sequence instances", "C03": "image plumbing (58–84 symbolic fields), live µs adapter",
        "C04": "seven leader variants × ~480 symbolic fields", "C05": "z3 LIA", "C06": "option threading (`C06.opts`), shared with C01", "C07": "cache glue × 3 protocols, option threading",
        "C08": "time codec, hierarchy, float/str enumeration", "C09": "torn states × 3 protocols", "C10": "option threading (6 image orders)", "C11": "shared with C01",
        "C12": "type walk over the structure variants", "C13": "file roles on symbolic name lists", "C14": "aggregation over validity vectors", "C15": "z3 regular languages, date enumeration",
        "C16": "adapter lemmas, inner-blank instance", "C17": "calendar arithmetic, live µs adapter", "C18": "symbolic file size", "C19": "recording + z3 (14 scenarios)",
        "C20": "`remove_spares` over 9×12×12 keys, spare/value overlap query"}


def parse(path):
    out = {}
    for line in open(path):
        m = re.match(r"(C\d\d) \w+ rc=(\d+) wall=(\d+)s .*obligations=(\d+)", line)
        if m:
            out[m.group(1)] = (int(m.group(2)), int(m.group(3)), int(m.group(4)))
    return out


q, t = parse(sys.argv[1]), parse(sys.argv[2])
print("| property | quick | thorough | obligations (quick / thorough) | what dominates |")
print("|---|---|---|---|---|")
for pid in sorted(q):
    tt = t.get(pid, (0, 0, 0))
    print(f"| {pid} | ≈ {q[pid][1]} s | ≈ {tt[1]} s | {q[pid][2]} / {tt[2]} | {WHAT[pid]} |")
print(f"\nSum: quick ≈ {sum(v[1] for v in q.values()) // 60} min, thorough ≈ {sum(v[1] for v in t.values()) // 60} min (sequential; every run exit {max(v[0] for v in list(q.values()) + list(t.values()))}).")
