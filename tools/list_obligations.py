#!/usr/bin/env python3
"""prints the obligations of every property (quick tier) as a markdown table - pasted into DESIGN.md section 11.3"""
import importlib
import os
import sys

sys.path[:0] = [os.environ.get("VERIF_REPO", "/repo"), "/verif"]
import re  # noqa: E402

ENG = {"X": "CrossHair/z3", "L": "layout/z3", "R": "regex/z3", "N": "numeric/z3", "S": "schedule/z3", "E": "replay"}
print("| property | obligations (quick tier) |")
print("|---|---|")
for i in range(1, 21):
    pid = f"C{i:02d}"
    mod = importlib.import_module(f"props.{pid.lower()}")
    obs = mod.obligations("quick")
    groups = {}
    for o in obs:
        stem = re.sub(r"\.(n\d+.*|t\d+|image\..*|leader\..*|IU2|C8)$", "", o.id)
        groups.setdefault((stem, o.engine), []).append(o)
    cells = []
    for (stem, eng), lst in groups.items():
        n = f" ×{len(lst)}" if len(lst) > 1 else ""
        cells.append(f"`{stem}`{n} ({ENG[eng]})")
    print(f"| {pid} | " + ", ".join(cells) + " |")
