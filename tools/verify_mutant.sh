#!/bin/bash
# usage: tools/verify_mutant.sh <worktree> <patch.diff> <demo.py>
# confirms: patch applies; suite result unchanged (1212 passed, same 11 failures); demo passes without and fails with the patch
wt="$1"; patch="$2"; demo="$3"
cd "$wt" || exit 2
git checkout -q -- . ; git clean -fdq -e '*.pyc' >/dev/null 2>&1
[ -z "$(git status --porcelain --untracked-files=no)" ] || { echo "worktree not clean"; exit 2; }
/venv/bin/python "$demo" >/tmp/vm_demo0.log 2>&1; d0=$?
git apply "$patch" || { echo "APPLY-FAIL"; exit 2; }
/venv/bin/python "$demo" >/tmp/vm_demo1.log 2>&1; d1=$?
t=$(/venv/bin/python -m pytest -q -p no:cacheprovider 2>&1 | tail -1)
git checkout -q -- .
echo "demo_clean=$d0 demo_mutant=$d1 tests: $t"
if [ $d0 -eq 0 ] && [ $d1 -ne 0 ] && echo "$t" | grep -q "11 failed, 1212 passed"; then echo "MUTANT-OK"; else echo "MUTANT-REJECTED"; tail -5 /tmp/vm_demo1.log; fi
