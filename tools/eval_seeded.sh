#!/bin/bash
# usage: tools/eval_seeded.sh <seeded-id> <Cxx> [<Cyy>...]   -> appends a line per check to /tmp/seeded_eval.log
id="$1"; shift
for p in "$@"; do
  r=$(SCRATCH=1 /verif/tools/try_patch.sh /verif/seeded/$id/patch.diff -- $p 2>&1)
  rc=$(echo "$r" | grep -o "rc=[0-9]*" | head -1)
  v=$(echo "$r" | grep -E "^\s+\[(violated|inconclusive)" | awk '{print $3}' | tr '\n' ',' | cut -c1-300)
  echo "$id $p $rc $v" >> /tmp/seeded_eval.log
done
