#!/usr/bin/env python3
"""prints the markdown table of DESIGN.md section 11.2 from seeded/*/meta.json (written by tools/eval_all_seeded.py)"""
import json
import os
import re

ROOT = os.path.dirname(os.path.dirname(os.path.abspath(__file__)))


def key(sid):
    m = re.match(r"C(\d+)-(?:r(\d+))?m(\d+)", sid)
    return int(m.group(1)), int(m.group(2) or 1), int(m.group(3))


print("| change | what it needs to manifest | quick checks that report it (obligations) |")
print("|---|---|---|")
missed = []
for sid in sorted(os.listdir(os.path.join(ROOT, "seeded")), key=key):
    meta = json.load(open(os.path.join(ROOT, "seeded", sid, "meta.json")))
    own = sid.split("-")[0]
    cells = []
    for prop, r in sorted((meta.get("detected_by") or {}).items(), key=lambda kv: (kv[0] != own, kv[0])):
        obs = ", ".join(sorted({o.split(".", 1)[1] if "." in o else o for o in r.get("violated", [])}))
        if r.get("exit") == 1:
            cells.append((f"**{prop}**" if prop == own else prop) + (f" ({obs})" if obs else ""))
        elif prop == own:
            cells.append(f"{prop}: NOT reported (exit {r.get('exit')})")
            missed.append(sid)
        else:
            cells.append(f"{prop}: not seen")
    need = (meta.get("needs_to_manifest") or "").replace("|", "/").replace("\n", " ")
    print(f"| {sid} | {need[:170]} | {'; '.join(cells)} |")
if missed:
    print("\nMISSED:", " ".join(missed))
