"""entry point:  check.py <Cxx> quick|thorough      |  check.py <Cxx> --replay <file>"""
import importlib
import json
import os
import sys

from vlib import core


def main(argv):
    if len(argv) < 2:
        print(__doc__)
        return 2
    prop = argv[0]
    mod = importlib.import_module(f"props.{prop.lower()}")
    seed = int(os.environ.get("VERIF_SEED", "0"))
    if argv[1] == "--replay":
        rec = json.load(open(argv[2]))
        ob = rec["obligation"]
        print(json.dumps(ob.get("cex"), indent=1))
        if ob.get("kind") == "crosshair":
            path, func = ob["harness"].split(":")
            rep = core.replay_call(os.path.join(core.ROOT, path), func, ob["cex"]["call"], ob.get("params"))
            print(json.dumps(rep, indent=1))
            if rep.get("ok") is False:
                print(f"VIOLATION property={prop} replay={argv[2]}")
                return 1
            return 0
        res = core.run_ob_direct(next(o for o in mod.obligations(rec["tier"]) if o.id == ob["id"]), rec["tier"])
        print(json.dumps(res, indent=1, default=repr)[:4000])
        if res.get("verdict") == "violated":
            print(f"VIOLATION property={prop} replay={argv[2]}")
            return 1
        return 0
    tier = argv[1]
    assert tier in ("quick", "thorough"), tier
    os.environ["VERIF_TIER"] = tier
    return core.run_property(prop, mod, tier, seed)


if __name__ == "__main__":
    try:
        rc = main(sys.argv[1:])
    except Exception:  # noqa: BLE001 - an error of the machinery itself is never a verdict about the repository
        import traceback

        traceback.print_exc()
        print("HARNESS-ERROR: the check could not run to a verdict (exit 3 = inconclusive)")
        rc = 3
    sys.exit(rc)
