import os, sys, traceback, shutil, glob
sys.path.insert(0, "/tmp/probe/repo")
os.environ["XDG_CACHE_HOME"] = "/tmp/probe/xdg"
shutil.rmtree("/tmp/probe/xdg", ignore_errors=True)
import ceos_alos2, numpy as np, xarray as xr, fsspec
sys.path.insert(0, "/tmp/probe/syn")
import mk
root = "/tmp/probe/p5"; shutil.rmtree(root, ignore_errors=True)
datas = mk.product(root, "1.5", n=5, p=7, pols=("HH",))
# 1. memory filesystem
mem = fsspec.filesystem("memory")
for f in os.listdir(root):
    mem.pipe(f"/prod/{f}", open(os.path.join(root, f), "rb").read())
try:
    t0 = ceos_alos2.open_alos2("memory://prod", backend_options={"use_cache": False, "create_cache": True, "records_per_chunk": 2})
    print("memory create ok", t0["imagery/HH/data"].values[0, :3])
    t1 = ceos_alos2.open_alos2("memory://prod", backend_options={"use_cache": True, "records_per_chunk": 3})
    print("memory cached open ok"); print(t1["imagery/HH/data"].values[0, :3])
except BaseException as e:
    print("memory: EXC", type(e).__name__, str(e)[:200])
# file:// url
try:
    t1 = ceos_alos2.open_alos2("file://" + root, backend_options={"use_cache": False, "create_cache": True})
    t1 = ceos_alos2.open_alos2("file://" + root, backend_options={"use_cache": True})
    print("file url cached ok", t1["imagery/HH/data"].values[0, :3])
except BaseException as e:
    print("file url: EXC", type(e).__name__, str(e)[:200])
# 2. torn cache
ceos_alos2.open_alos2(root, backend_options={"use_cache": False, "create_cache": True})
idx = [p for p in glob.glob("/tmp/probe/xdg/xarray-ceos-alos2/*/*.index")]
print(len(idx), "index files")
import hashlib
target = [p for p in idx if hashlib.sha256(root.encode()).hexdigest() in p][0]
doc = open(target).read()
for k in (0, 1, len(doc) // 2, len(doc) - 1):
    open(target, "w").write(doc[:k])
    try:
        ceos_alos2.open_alos2(root); print("torn", k, "ok")
    except BaseException as e:
        print("torn", k, "EXC", type(e).__name__, str(e)[:80])
open(target, "w").write(doc)
# 3. file name order
lines = open(os.path.join(root, "summary.txt")).read().splitlines()
fn = [i for i, l in enumerate(lines) if "ProductFileName0" in l and "Cnt" not in l]
lines[fn[0]], lines[fn[1]] = lines[fn[1]], lines[fn[0]]
open(os.path.join(root, "summary.txt"), "w").write("\r\n".join(lines) + "\r\n")
try:
    t = ceos_alos2.open_alos2(root, backend_options={"use_cache": False}); print("swapped filename lines: ok", dict(t["summary/product_information/data_files"].attrs))
except BaseException as e:
    print("swapped filename lines: EXC", type(e).__name__, str(e)[:100])
