"""throwaway product synthesizer (probe)"""
import construct as c, struct, io, os, numpy as np
from ceos_alos2 import datatypes as D
from ceos_alos2.sar_image import enums as E

def get_in(d, path):
    for p in path:
        if not isinstance(d, dict) or p not in d: return None
        d = d[p]
    return d

def build(con, values, ctx, path=()):
    """return bytes for con; values: nested dict overrides; ctx: dict of already built python values"""
    if isinstance(con, c.Renamed):
        return build(con.subcon, values, ctx, path)
    v = values
    if isinstance(con, c.Struct):
        out = b""
        myctx = {"_": ctx}
        for sc in con.subcons:
            name = sc.name
            sub = v.get(name) if isinstance(v, dict) else None
            b, val = build(sc, sub, myctx, path + (name,))
            myctx[name] = val
            out += b
        return out, myctx
    if isinstance(con, c.Array):
        n = con.count(ctx) if callable(con.count) else con.count
        out = b""; vals = []
        for i in range(n):
            sub = v[i] if isinstance(v, list) and i < len(v) else None
            b, val = build(con.subcon, sub, ctx, path + (i,))
            out += b; vals.append(val)
        return out, vals
    if isinstance(con, c.FormatField):
        val = 0 if v is None else v
        return struct.pack(con.fmtstr, val), val
    if isinstance(con, (D.AsciiInteger, D.AsciiFloat, D.PaddedString)):
        fs = con.subcon.subcon  # FixedSized
        n = fs.length(ctx) if callable(fs.length) else fs.length
        if n < 0: raise ValueError(f"negative length at {path}: {n}")
        if isinstance(con, D.AsciiInteger):
            txt = "" if v == "" else str(0 if v is None else v)
            return txt.rjust(n).encode()[:n] if len(txt) <= n else (_ for _ in ()).throw(ValueError(path)), (0 if v is None else v)
        if isinstance(con, D.AsciiFloat):
            if v == "": return b" " * n, float("nan")
            val = 0.0 if v is None else v
            txt = v if isinstance(v, str) else f"{val:{n}.7E}" if n >= 14 else f"{val:{n}.3f}"
            assert len(txt) <= n, (path, txt, n)
            return txt.rjust(n).encode(), float(txt)
        txt = "" if v is None else v
        assert len(txt) <= n, (path, txt, n)
        return txt.ljust(n).encode(), txt
    if isinstance(con, D.AsciiComplex):
        st = con.subcon
        re_, im = (v.real, v.imag) if v is not None else (0.0, 0.0)
        b1, _ = build(st.subcons[0], re_, ctx, path); b2, _ = build(st.subcons[1], im, ctx, path)
        return b1 + b2, complex(re_, im)
    if isinstance(con, D.DatetimeYdms):
        return build(con.subcon, v or {"year": 2020, "day_of_year": 1, "milliseconds": 0}, ctx, path)
    if isinstance(con, (D.Factor, D.Metadata, D.DatetimeYdus, D.StripNullBytes, E.Flag)):
        return build(con.subcon, v, ctx, path)
    if isinstance(con, c.Enum):
        return build(con.subcon, v, ctx, path)
    if isinstance(con, c.Bytes):
        n = con.length
        return (v or b"").ljust(n, b"\0"), v
    if type(con).__name__ in ("Tell", "Computed", "Seek"):
        return b"", None
    raise TypeError(f"{type(con)} at {path}")

def preamble(seq, t1, t, t2, t3, length):
    return {"record_sequence_number": seq, "first_record_subtype": t1, "record_type": t, "second_record_subtype": t2, "third_record_subtype": t3, "record_length": length}
