import sys, traceback, os
os.environ["XDG_CACHE_HOME"] = "/tmp/probe/xdg"
import ceos_alos2, numpy as np
lvl = sys.argv[1]
opts = eval(sys.argv[2]) if len(sys.argv) > 2 else {"use_cache": False}
def show(t):
    for node in t.subtree:
        print("==", node.path, dict(list(node.attrs.items())[:60]))
        for k, v in node.variables.items():
            try:
                val = v.values
                print("   ", k, v.dims, repr(v.dtype), val.dtype, val.shape, str(val.ravel()[:3]).replace("\n", " ")[:100], v.attrs, v.encoding, "coord" if k in node.coords else "")
            except BaseException as e:
                print("   ", k, "ERR", type(e).__name__, e)
try:
    t = ceos_alos2.open_alos2(f"/tmp/probe/prod{lvl}", backend_options=opts)
    show(t)
except BaseException:
    traceback.print_exc()
