import os, sys, traceback, shutil
sys.path.insert(0, "/tmp/probe/repo")
os.environ["XDG_CACHE_HOME"] = "/tmp/probe/xdg"
shutil.rmtree("/tmp/probe/xdg", ignore_errors=True)
import ceos_alos2, numpy as np, xarray as xr
print(ceos_alos2.__file__)
sys.path.insert(0, "/tmp/probe/syn")
import mk
for lvl in ("1.5", "1.1"):
    root = f"/tmp/probe/p4_{lvl}"; shutil.rmtree(root, ignore_errors=True)
    mk.product(root, lvl, n=5, p=7, pols=("HH",))
    try:
        t0 = ceos_alos2.open_alos2(root, backend_options={"use_cache": False, "create_cache": True, "records_per_chunk": 2})
        t1 = ceos_alos2.open_alos2(root, backend_options={"use_cache": True, "records_per_chunk": 3})
        t2 = ceos_alos2.open_alos2(root, backend_options={"use_cache": False, "records_per_chunk": 3})
        for (p1, n1), (p2, n2) in zip(sorted((n.path, n) for n in t1.subtree), sorted((n.path, n) for n in t2.subtree)):
            try:
                xr.testing.assert_identical(n1.to_dataset(), n2.to_dataset())
            except BaseException as e:
                print(lvl, p1, "DIFF", type(e).__name__, str(e)[:600])
        print(lvl, "enc", t1["imagery/HH/data"].encoding, t2["imagery/HH/data"].encoding)
    except BaseException:
        traceback.print_exc()
