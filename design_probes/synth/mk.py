import sys, os, numpy as np, struct
sys.path.insert(0, "/tmp/probe/syn")
from synth import build, preamble
from ceos_alos2.sar_leader import dataset_summary, map_projection, platform_position, attitude, radiometric_data, data_quality_summary, facility_related_data, file_descriptor as ledfd
from ceos_alos2.sar_image import signal_data, processed_data, file_descriptor as imgfd
from ceos_alos2.volume_directory import structure as vd

def image_file(level, data, hl):
    n, p = data.shape
    bps = 8 if level == "1.1" else 2
    rs = hl + p * bps
    fd = {"preamble": preamble(1, 50, 192, 18, 18, 720), "number_of_sar_data_records": n, "sar_data_record_length": rs,
          "sar_related_data_in_the_record": {"number_of_lines_per_dataset": n, "number_of_data_groups_per_line": p, "interleaving_id": "BSQ"},
          "prefix_suffix_data_locators": {"sar_data_format_type_code": "C*8" if level == "1.1" else "IU2", "maximum_data_range_of_pixel": "" , "number_of_burst_data": "", "number_of_lines_per_burst": ""},
          "scansar_burst_data_information": {"number_of_overlap_lines_with_adjacent_bursts": ""}}
    out, _ = build(imgfd.file_descriptor_record, fd, {})
    assert len(out) == 720
    rec = signal_data.signal_data_record if level == "1.1" else processed_data.processed_data_record
    for i in range(n):
        v = {"preamble": preamble(i + 2, 50, 10 if level == "1.1" else 11, 18, 20, rs), "sar_image_data_line_number": i + 1,
             "sensor_acquisition_date": {"year": 2020, "day_of_year": 60, "milliseconds": 1000 * i},
             "sar_channel_id": 1, "sensor_acquisition_date_microseconds": 1000000 * i}
        b, _ = build(rec, v, {})
        assert len(b) == hl, (len(b), hl)
        if level == "1.1":
            line = np.empty(p, dtype=[("real", ">f4"), ("imag", ">f4")]); line["real"] = data[i].real; line["imag"] = data[i].imag
        else:
            line = data[i].astype(">u2")
        out += b + line.tobytes()
    return out

def leader(n_att=3, n_ch=2, with_mp=True, fac_len=(100, 120, 140, 160)):
    recs = []
    lens = {"dataset_summary": 4096, "map_projection": 1620, "platform_position": 4680, "attitude": 16384, "radiometric_data": 9860, "data_quality_summary": 1620}
    fd = {"preamble": preamble(1, 11, 192, 18, 18, 720), "map_projection": {"number_of_records": 1 if with_mp else 0, "record_length": 1620},
          "dataset_summary": {"number_of_records": 1, "record_length": 4096}}
    b, _ = build(ledfd.file_descriptor_record, fd, {}); assert len(b) == 720; out = b
    b, _ = build(dataset_summary.dataset_summary_record, {"preamble": preamble(2, 18, 10, 18, 20, 4096), "scene_center_time": "20200229123456789", "motion_compensation_indicator": 0,
        "base_band_conversion_flag": "YES", "range_compression_flag": "NO", "echo_tracker_status": "ON", "weighting_function_in_azimuth": "1", "weighting_function_in_range": "1",
        "clutter_lock_applied_flag": "YES", "auto_focusing_applied_flag": "YES", "geodetic_latitude": 12.5}, {}); assert len(b) == 4096, len(b); out += b
    if with_mp:
        b, _ = build(map_projection.map_projection_record, {"preamble": preamble(3, 18, 20, 18, 20, 1620), "map_projection_designator": "UTM-PROJECTION"}, {}); assert len(b) == 1620; out += b
    b, _ = build(platform_position.platform_position_record, {"preamble": preamble(4, 18, 30, 18, 20, 4680), "orbital_elements_designator": "2",
        "datetime_of_first_point": {"date": "2020   2  29", "day_of_year": 60, "seconds_of_day": 3600.5}}, {}); assert len(b) == 4680; out += b
    pts = [{"time": {"day_of_year": 60, "millisecond_of_day": 1000 * i}} for i in range(n_att)]
    b, _ = build(attitude.attitude_record, {"preamble": preamble(5, 18, 40, 18, 20, 16384), "number_of_points": n_att, "data_points": pts}, {}); assert len(b) == 16384, len(b); out += b
    b, _ = build(radiometric_data.radiometric_data_record, {"preamble": preamble(6, 18, 50, 18, 20, 9860), "calibration_factor": -83.0}, {}); assert len(b) == 9860; out += b
    b, _ = build(data_quality_summary.data_quality_summary_record, {"preamble": preamble(7, 18, 60, 18, 20, 1620), "number_of_channels": n_ch}, {}); assert len(b) == 1620, len(b); out += b
    for i, L in enumerate(fac_len):
        b, _ = build(facility_related_data.facility_related_data_record, {"preamble": preamble(8 + i, 18, 200, 18, 70, L), "record_sequence_number": i + 1}, {}); assert len(b) == L; out += b
    b, _ = build(facility_related_data.facility_related_data_5_record, {"preamble": preamble(12, 18, 200, 18, 70, 5000), "record_sequence_number": 5, "calibration_mode_data_location_flag": 0}, {}); assert len(b) == 5000, len(b); out += b
    return out

def volume(n_fp=4):
    v = {"volume_descriptor": {"preamble": preamble(1, 192, 192, 18, 18, 360), "logical_volume_creation_datetime": "2020022912345678", "number_of_file_pointer_records": n_fp,
         "physical_volume_id": "PHYS", "logical_volume_id": "LOGI"}, "text_record": {"preamble": preamble(2 + n_fp, 18, 63, 18, 18, 360), "product_id": "PRODUCT:WBDR1.1__D", "scene_id": "ORBIT:ALOS2"}}
    b, _ = build(vd.volume_directory_record, v, {})
    assert len(b) == 360 * (2 + n_fp)
    return b

def product(root, level="1.5", n=5, p=7, pols=("HH", "HV"), scans=(None,), rng=None, **kw):
    os.makedirs(root, exist_ok=True)
    rng = rng or np.random.default_rng(0)
    scene = "ALOS2290760600-191011"
    pid = {"1.1": "WBDR1.1__D", "1.5": "WBDR1.5GUD"}[level]
    files = [f"VOL-{scene}-{pid}", f"LED-{scene}-{pid}"]
    datas = {}
    for pol in pols:
        for s in scans:
            name = f"IMG-{pol}-{scene}-{pid}" + (f"-{s}" if s else "")
            if level == "1.1":
                d = (rng.normal(size=(n, p)) + 1j * rng.normal(size=(n, p))).astype("complex64")
            else:
                d = rng.integers(0, 65536, size=(n, p)).astype("uint16")
            datas[name] = d
            open(os.path.join(root, name), "wb").write(image_file(level, d, 544 if level == "1.1" else 192))
            files.append(name)
    files.append(f"TRL-{scene}-{pid}")
    open(os.path.join(root, files[0]), "wb").write(volume())
    open(os.path.join(root, files[1]), "wb").write(leader(**kw))
    open(os.path.join(root, files[-1]), "wb").write(b"")
    lines = ['Odi_SceneId="SARD000000276461-00043-005-000"', f'Scs_SceneID="{scene}"', 'Scs_SceneShift="0"', f'Pds_ProductID="{pid}"', 'Pds_ResamplingMethod="NN"',
             'Img_SceneCenterDateTime="20191011 14:43:15.525"', 'Img_OffNadirAngle="21.3"',
             f'Pdi_CntOfL15ProductFileName="{len(files)}"'] + [f'Pdi_L15ProductFileName{i+1:02d}="{f}"' for i, f in enumerate(files)] + [
             f'Pdi_NoOfPixels_1="{p}"', f'Pdi_NoOfLines_1="{n}"', 'Pdi_ProductFormat="CEOS"', 'Pdi_BitPixel="16"', 'Pdi_ProductDataSize="1.5"',
             'Ach_PRF_Check=""', 'Rad_PracticeResultCode="GOOD"', 'Lbi_Sensor="SAR"', 'Lbi_ObservationDate="20191011"', 'Lbi_ProcessFacility="SCMO"']
    open(os.path.join(root, "summary.txt"), "w").write("\n".join(lines) + "\n")
    return datas

if __name__ == "__main__":
    import shutil
    for lvl in ("1.5", "1.1"):
        root = f"/tmp/probe/prod{lvl}"
        shutil.rmtree(root, ignore_errors=True)
        product(root, lvl)
        print(lvl, os.listdir(root))
