import os, traceback, shutil, sys
os.environ["XDG_CACHE_HOME"] = "/tmp/probe/xdg"
import ceos_alos2, numpy as np
sys.path.insert(0, "/tmp/probe/syn")
import mk
root = "/tmp/probe/p3"; shutil.rmtree(root, ignore_errors=True)
datas = mk.product(root, "1.5", n=5, p=7, pols=("HH",))
full = list(datas.values())[0]
t = ceos_alos2.open_alos2(root, backend_options={"use_cache": False, "records_per_chunk": 2})
d = t["imagery/HH/data"]
def tryit(label, f):
    try:
        r = f()
        print(label, "->", getattr(r, "shape", None), "OK" )
        return r
    except BaseException as e:
        print(label, "-> EXC", type(e).__name__, str(e)[:100])
r = tryit("isel rows=0", lambda: d.isel(rows=0).values); print(" expected", full[0].shape, None if r is None else np.array_equal(r, full[0]))
r = tryit("isel rows=-1", lambda: d.isel(rows=-1).values)
r = tryit("isel rows=slice(0,0)", lambda: d.isel(rows=slice(0, 0)).values)
r = tryit("isel rows=[3,0,4]", lambda: d.isel(rows=[3, 0, 4]).values); print("  eq", None if r is None else np.array_equal(r, full[[3,0,4]]))
r = tryit("isel rows=slice(None,None,-1)", lambda: d.isel(rows=slice(None, None, -1)).values); print("  eq", None if r is None else np.array_equal(r, full[::-1]))
r = tryit("isel rows=bool", lambda: d.isel(rows=np.array([True, False, True, False, False])).values); print("  eq", None if r is None else np.array_equal(r, full[[0, 2]]))
r = tryit("isel cols=3", lambda: d.isel(columns=3).values); print("  eq", None if r is None else np.array_equal(r, full[:, 3]))
r = tryit("isel rows=2, cols=3", lambda: d.isel(rows=2, columns=3).values); print("  eq", None if r is None else (r, full[2, 3]))
r = tryit("vectorized", lambda: d.isel(rows=__import__("xarray").DataArray([0, 2], dims="z"), columns=__import__("xarray").DataArray([1, 3], dims="z")).values); print("  eq", None if r is None else np.array_equal(r, full[[0, 2], [1, 3]]))
# truncation on record boundary
img = [f for f in os.listdir(root) if f.startswith("IMG")][0]
size = os.path.getsize(os.path.join(root, img)); rs = 192 + 7 * 2
for rpc in (1, 2, 5, 1024):
    for cut in (720 + 3 * rs, 720 + 3 * rs + 1, 720 + 4 * rs - 1, 720, 719):
        shutil.copy(os.path.join(root, img), "/tmp/probe/img.bak")
        with open(os.path.join(root, img), "r+b") as f: f.truncate(cut)
        try:
            t2 = ceos_alos2.open_alos2(root, backend_options={"use_cache": False, "records_per_chunk": rpc})
            d2 = t2["imagery/HH/data"]
            try:
                v = d2.values; res = f"RETURNED shape={d2.shape} loaded={v.shape}"
            except BaseException as e: res = f"RETURNED shape={d2.shape} load EXC {type(e).__name__}"
        except BaseException as e:
            res = f"raised {type(e).__name__}"
        print("rpc", rpc, "cut", cut - 720, "->", res)
        shutil.copy("/tmp/probe/img.bak", os.path.join(root, img))
