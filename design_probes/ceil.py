import z3, time, sys
W = 32
n, r = z3.BitVecs("n r", W)
F = z3.Float64()
fn = z3.fpSignedToFP(z3.RNE(), n, F)      # exact: |n| < 2^53
fr = z3.fpSignedToFP(z3.RNE(), r, F)
q = z3.fpDiv(z3.RNE(), fn, fr)
c = z3.fpRoundToIntegral(z3.RTP(), q)      # math.ceil
ci = z3.fpToSBV(z3.RTZ(), c, z3.BitVecSort(W))
ref = z3.UDiv(n + r - 1, r)
s = z3.Solver()
s.add(z3.ULE(n, 999999), z3.UGE(r, 1), z3.ULT(r, 2**31 - 1), n + r - 1 >= n)   # no overflow in ref
s.add(ci != ref)
open("ceil.smt2", "w").write("(set-logic QF_BVFP)\n" + s.to_smt2())
t0 = time.time(); s.set("timeout", 240000); print(s.check(), round(time.time() - t0, 1))
