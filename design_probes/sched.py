"""C19 probe: symbolic schedule over two recorded event programs"""
import z3, time
def check(progs, shared_handle, locks):
    # progs: list of list of events ('seek', h, off) / ('read', h, size) / ('acq', l) / ('rel', l); handles are ids
    T = sum(len(p) for p in progs)
    pos = {}  # event -> global position
    s = z3.Solver()
    ev = [(t, i) for t, p in enumerate(progs) for i in range(len(p))]
    P = {e: z3.Int(f"p_{e[0]}_{e[1]}") for e in ev}
    s.add(z3.Distinct(*P.values())); s.add(*[z3.And(P[e] >= 0, P[e] < T) for e in ev])
    for t, p in enumerate(progs):
        for i in range(len(p) - 1): s.add(P[(t, i)] < P[(t, i + 1)])
    # lock exclusion: critical sections of the same lock do not overlap
    for l in locks:
        secs = []
        for t, p in enumerate(progs):
            a = [i for i, e in enumerate(p) if e == ("acq", l)]; r = [i for i, e in enumerate(p) if e == ("rel", l)]
            secs += [(t, x, y) for x, y in zip(a, r)]
        for i in range(len(secs)):
            for j in range(i + 1, len(secs)):
                (t1, a1, r1), (t2, a2, r2) = secs[i], secs[j]
                s.add(z3.Or(P[(t1, r1)] < P[(t2, a2)], P[(t2, r2)] < P[(t1, a1)]))
    # file position seen by each read = offset of the latest seek/read on the same handle before it in global order
    bad = []
    for t, p in enumerate(progs):
        for i, e in enumerate(p):
            if e[0] != "read": continue
            h = e[1]
            # sequential expectation: last seek of own thread before i
            own = [j for j in range(i) if p[j][0] == "seek" and p[j][1] == h][-1]
            # another thread's seek on the same handle lands between own seek and this read?
            for t2, p2 in enumerate(progs):
                if t2 == t: continue
                for j, e2 in enumerate(p2):
                    if e2[0] in ("seek", "read") and e2[1] == h:
                        bad.append(z3.And(P[(t, own)] < P[(t2, j)], P[(t2, j)] < P[(t, i)]))
    s.add(z3.Or(*bad) if bad else z3.BoolVal(False))
    t0 = time.time(); r = s.check()
    return r, round(time.time() - t0, 3), (sorted(ev, key=lambda e: s.model()[P[e]].as_long()) if r == z3.sat else None)
A = [("acq", "L"), ("seek", "hA", 100), ("read", "hA", 50), ("seek", "hA", 300), ("read", "hA", 50), ("rel", "L")]
B = [("acq", "L"), ("seek", "hB", 200), ("read", "hB", 50), ("rel", "L")]
print("own handles, same lock:", check([A, B], False, ["L"])[:2])
A2 = [("seek", "h", 100), ("read", "h", 50), ("seek", "h", 300), ("read", "h", 50)]
B2 = [("seek", "h", 200), ("read", "h", 50)]
print("shared handle, no lock:", check([A2, B2], True, []))
A3 = [("acq", "L")] + A2 + [("rel", "L")]; B3 = [("acq", "L")] + B2 + [("rel", "L")]
print("shared handle, common lock:", check([A3, B3], True, ["L"])[:2])
