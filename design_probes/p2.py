import construct as c
from ceos_alos2.sar_leader.structure import sar_leader_record
from ceos_alos2.sar_leader import dataset_summary, map_projection, platform_position, attitude, radiometric_data, data_quality_summary, facility_related_data, file_descriptor
from ceos_alos2.sar_image import signal_data, processed_data, file_descriptor as imgfd
from ceos_alos2.sar_trailer import file_descriptor as trfd
from ceos_alos2.volume_directory import structure as vd
for name, s in [("led.fd", file_descriptor.file_descriptor_record), ("dss", dataset_summary.dataset_summary_record), ("mp", map_projection.map_projection_record), ("pp", platform_position.platform_position_record), ("rad", radiometric_data.radiometric_data_record), ("img.fd", imgfd.file_descriptor_record), ("vd.vol", vd.volume_descriptor), ("vd.fd", vd.file_descriptor), ("vd.text", vd.text_record), ("f5", facility_related_data.facility_related_data_5_record)]:
    try:
        print(name, s.sizeof())
    except Exception as e:
        print(name, "ERR", type(e).__name__, e)
def walk(s, depth=0, maxd=2):
    print("  "*depth, type(s).__name__, getattr(s, "name", None), end=" ")
    if isinstance(s, c.Renamed):
        print(); walk(s.subcon, depth+1, maxd); return
    if isinstance(s, c.Struct):
        print(len(s.subcons))
        if depth < maxd:
            for sc in s.subcons[:6]: walk(sc, depth+1, maxd)
        return
    if isinstance(s, c.Array):
        print("count=", s.count, type(s.count)); walk(s.subcon, depth+1, maxd); return
    if isinstance(s, c.Adapter):
        print("adapter of", type(s.subcon).__name__, getattr(s, 'factor', None), getattr(s,'attrs',None)); walk(s.subcon, depth+1, maxd); return
    if hasattr(s, "subcon"):
        print({k: v for k, v in vars(s).items() if k not in ("subcon","docs","parsed")}); walk(s.subcon, depth+1, maxd); return
    print({k: v for k, v in vars(s).items() if k not in ("docs","parsed")})
walk(attitude.attitude_record, 0, 3)
walk(signal_data.signal_data_record.subcons[-1], 0, 4)
walk(platform_position.orbital_elements_designator)
e = attitude.attitude_record.subcons[-1].subcon
print(type(e), vars(e).keys())
