from typing import List
import contextlib
from ceos_alos2 import array as A

class Span:
    """abstract bytes: file[lo:hi]"""
    def __init__(self, lo, hi):
        self.lo, self.hi = lo, hi
    def __len__(self):
        return self.hi - self.lo
    def __getitem__(self, s):
        n = self.hi - self.lo
        a, b = s.start, s.stop
        # python slice clamp semantics for step None
        if a < 0: a = max(n + a, 0)
        else: a = min(a, n)
        if b < 0: b = max(n + b, 0)
        else: b = min(b, n)
        if b < a: b = a
        return Span(self.lo + a, self.lo + b)

class F:
    def __init__(self, size, log):
        self.size, self.pos, self.log = size, 0, log
    def seek(self, o):
        self.pos = o
    def read(self, n):
        lo = min(self.pos, self.size); hi = min(self.pos + n, self.size)
        self.log.append((self.pos, n))
        self.pos = hi
        return Span(lo, hi)
    def __enter__(self): return self
    def __exit__(self, *a): return False

class FS:
    def __init__(self, size):
        self.size, self.log, self.opens = size, [], 0
    def open(self, url, mode="rb"):
        self.opens += 1
        return F(self.size, self.log)

class Rows(list):
    pass

def _mk(n, hl, rs, rpc):
    br = [(720 + i * rs + hl, 720 + (i + 1) * rs) for i in range(n)]
    fs = FS(720 + n * rs)
    arr = A.Array(fs=fs, url="IMG", byte_ranges=br, shape=(n, (rs - hl) // 2), dtype="uint16", type_code="IU2", records_per_chunk=rpc)
    return br, fs, arr

import numpy as np
_orig = (A.parse_data, A.np)
class _NP:
    def __getattr__(self, k): return getattr(np, k)
    @staticmethod
    def stack(parts, axis=0): return Rows(parts)
    array = staticmethod(lambda x, *a, **k: x)

def rows_ok(n: int, rpc: int, hl: int, rs: int, rows: List[int]) -> bool:
    """
    pre: 1 <= n <= 4 and 1 <= rpc <= 6
    pre: 0 < hl < rs <= 100000
    pre: len(rows) <= 3
    pre: all(0 <= r < n for r in rows)
    pre: all(rows[i] < rows[i+1] for i in range(len(rows)-1)) or all(rows[i] > rows[i+1] for i in range(len(rows)-1))
    pre: len(rows) > 0
    post: _
    """
    A.parse_data = lambda part, type_code: part
    A.np = _NP()
    try:
        br, fs, arr = _mk(n, hl, rs, rpc)
        class Out(list):
            def __getitem__(self, k): return self
        A.np.stack = staticmethod(lambda parts, axis=0: Out(parts))
        out = arr[(list(rows), slice(None))]
        ok = len(out) == len(rows)
        for part, r in zip(out, rows):
            ok = ok and part.lo == br[r][0] and part.hi == br[r][1]
        # reads: one per touched chunk, inside the chunk
        touched = []
        for r in rows:
            if r // arr.records_per_chunk not in touched: touched.append(r // arr.records_per_chunk)
        ok = ok and len(fs.log) == len(touched) and fs.opens == 1
        for (o, s), c in zip(fs.log, touched):
            ok = ok and o >= 720 + c * arr.records_per_chunk * rs and o + s <= 720 + min((c + 1) * arr.records_per_chunk, n) * rs
        return ok
    finally:
        A.parse_data, A.np = _orig
