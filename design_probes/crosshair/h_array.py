from typing import List, Tuple
from ceos_alos2 import array as A

def _ranges(n, hl, rs):
    return [(720 + i * rs + hl, 720 + (i + 1) * rs) for i in range(n)]

def chunk_cover(n: int, rpc: int, hl: int, rs: int, r: int) -> bool:
    """
    pre: 1 <= n <= 5
    pre: 1 <= rpc <= 7
    pre: 0 < hl < rs <= 100000
    pre: 0 <= r < n
    post: _
    """
    br = _ranges(n, hl, rs)
    offs = A.compute_chunk_offsets(br, rpc)
    c = r // rpc
    info = offs[c]
    s, e = br[r]
    lo = 720 + c * rpc * rs + hl
    hi = 720 + min((c + 1) * rpc, n) * rs
    return info["offset"] == lo and info["offset"] + info["size"] == hi and info["offset"] <= s and e <= info["offset"] + info["size"]

def slice_rows(n: int, rpc: int, start: int, stop: int, step: int) -> bool:
    """
    pre: 1 <= n <= 5
    pre: 1 <= rpc <= 6
    pre: -7 <= start <= 7 and -7 <= stop <= 7 and -3 <= step <= 3 and step != 0
    post: _
    """
    br = _ranges(n, 192, 1000)
    sel = A.compute_selected_ranges(br, slice(start, stop, step))
    grouped = A.groupby_chunks(sel, rpc)
    flat = [rng for _, rngs in grouped.items() for rng in rngs]
    expect = [br[i] for i in range(n)[start:stop:step]]
    return flat == expect
