from ceos_alos2 import summary as S
from ceos_alos2 import decoders as D

def line_roundtrip(sec: str, key: str, val: str) -> bool:
    """
    pre: len(sec) == 3 and all(('a' <= c <= 'z') or ('A' <= c <= 'Z') for c in sec)
    pre: len(key) <= 3 and len(val) <= 3
    pre: '="' not in (key + '="')[:-2] and not key.endswith('=') or True
    pre: (key + '="').find('="') == len(key)
    pre: chr(10) not in key and chr(10) not in val
    post: _
    """
    line = sec + "_" + key + '="' + val + '"'
    try:
        got = S.parse_line(line)
    except ValueError:
        return False
    return got == {"section": sec, "keyword": key, "value": val}

def product_id(s: str) -> bool:
    """
    pre: len(s) == 10
    pre: s[0:3] in D.observation_modes and s[3] in D.observation_directions and s[4:7] in D.processing_levels
    pre: s[7] in D.processing_options and s[8] in D.map_projections and s[9] in D.orbit_directions
    post: _
    """
    try:
        got = D.decode_product_id(s)
    except ValueError:
        return False
    return got["map_projection"] == D.map_projections[s[8]] and got["observation_mode"] == D.observation_modes[s[0:3]]
