from typing import List
from ceos_alos2.sar_image import io as IO

class Span:
    def __init__(self, lo, hi): self.lo, self.hi = lo, hi
    def __len__(self): return self.hi - self.lo
    def __getitem__(self, s):
        n = self.hi - self.lo
        a = 0 if s.start is None else s.start; b = n if s.stop is None else s.stop
        a = max(n + a, 0) if a < 0 else min(a, n)
        b = max(n + b, 0) if b < 0 else min(b, n)
        if b < a: b = a
        return Span(self.lo + a, self.lo + b)

class F:
    def __init__(self, size): self.size, self.pos, self.log = size, 0, []
    def read(self, n=-1):
        lo = min(self.pos, self.size); hi = self.size if n < 0 else min(self.pos + n, self.size)
        self.log.append((self.pos, n)); self.pos = hi
        return Span(lo, hi)

class Obj(dict):
    __getattr__ = dict.__getitem__
    __setattr__ = dict.__setitem__

class RecParser:
    """stub for `record_struct[n]`: obeys the layout lemma (record i of the chunk starts at i*L, data at +H, stop at (i+1)*L) and needs n*L bytes"""
    def __init__(self, n, H, L): self.n, self.H, self.L = n, H, L
    def parse(self, content):
        if len(content) < self.n * self.L: raise EOFError("stream too short")
        return [Obj(record_start=i * self.L, data=Obj(start=i * self.L + self.H, stop=(i + 1) * self.L), origin=content.lo + i * self.L) for i in range(self.n)]
class RecStruct:
    def __init__(self, H, L): self.H, self.L = H, L
    def __getitem__(self, n): return RecParser(n, self.H, self.L)
class Preamble:
    def __init__(self, t): self.t = t
    def parse(self, content): return Obj(record_type=self.t)

def meta_ok(n: int, rpc: int, H: int, L: int, size: int) -> bool:
    """
    pre: 0 <= n <= 5 and 1 <= rpc <= 7
    pre: 0 < H < L <= 100000
    pre: size == 720 + n * L
    post: _
    """
    f = F(size)
    IO.read_file_descriptor = lambda f: (f.read(720), Obj(number_of_sar_data_records=n, sar_data_record_length=L))[1]
    IO.record_preamble = Preamble(10)
    IO.record_types = {10: RecStruct(H, L)}
    IO.to_dict = lambda x: x
    header, md = IO.read_metadata(f, rpc)
    ok = len(md) == n
    for i, m in enumerate(md):
        ok = ok and m.data.start == 720 + i * L + H and m.data.stop == 720 + (i + 1) * L and m.record_start == m.origin
    # I/O: descriptor then sequential chunks
    ok = ok and f.log[0] == (0, 720) and len(f.log) - 1 <= (n + rpc - 1) // rpc
    pos = 720
    for (p, k) in f.log[1:]:
        ok = ok and p == pos and k > 0 and p + k <= size
        pos = p + k
    return ok and pos == size

def trunc_detect(n: int, rpc: int, H: int, L: int, size: int) -> bool:
    """
    pre: 1 <= n <= 4 and 1 <= rpc <= 6
    pre: 0 < H < L <= 100000
    pre: 720 <= size < 720 + n * L
    post: _
    """
    f = F(size)
    IO.read_file_descriptor = lambda f: (f.read(720), Obj(number_of_sar_data_records=n, sar_data_record_length=L))[1]
    IO.record_preamble = Preamble(10)
    IO.record_types = {10: RecStruct(H, L)}
    IO.to_dict = lambda x: x
    try:
        header, md = IO.read_metadata(f, rpc)
    except (ValueError, EOFError):
        return True
    return len(md) == n   # returned although file is short -> must not have fewer lines than declared

def meta_ok2(H: int, L: int) -> bool:
    """
    pre: 0 < H < L
    post: _
    """
    ok = True
    for n in range(0, 6):
        for rpc in range(1, 8):
            size = 720 + n * L
            f = F(size)
            IO.read_file_descriptor = lambda f: (f.read(720), Obj(number_of_sar_data_records=n, sar_data_record_length=L))[1]
            IO.record_preamble = Preamble(10)
            IO.record_types = {10: RecStruct(H, L)}
            IO.to_dict = lambda x: x
            header, md = IO.read_metadata(f, rpc)
            ok = ok and len(md) == n
            for i, m in enumerate(md):
                ok = ok and m.data.start == 720 + i * L + H and m.data.stop == 720 + (i + 1) * L and m.record_start == m.origin
            ok = ok and f.log[0] == (0, 720) and len(f.log) - 1 <= (n + rpc - 1) // rpc
            pos = 720
            for (p, k) in f.log[1:]:
                ok = ok and p == pos and k > 0 and p + k <= size
                pos = p + k
            ok = ok and pos == size
    return ok
