from typing import List
from ceos_alos2 import summary as S

def agg(valid: List[bool]) -> bool:
    """
    pre: 1 <= len(valid) <= 4
    post: _
    """
    lines = [f"L{i}" for i in range(len(valid))]
    def parse_line(line):
        i = int(line[1:])
        if not valid[i]: raise ValueError("invalid line")
        return {"section": "Pds" if i % 2 else "Scs", "keyword": f"k{i}", "value": f"v{i}"}
    S.parse_line = parse_line
    content = "\n".join(lines)
    bad = [i for i, v in enumerate(valid) if not v]
    try:
        got = S.parse_summary(content)
    except ExceptionGroup as eg:
        nums = [int(e.args[0].split(":")[0].removeprefix("line ")) for e in eg.exceptions]
        return nums == bad and len(bad) > 0
    if bad: return False
    want = {}
    for i in range(len(valid)):
        want.setdefault("pds" if i % 2 else "scs", {})[f"k{i}"] = f"v{i}"
    return got == want
