import json
import ceos_alos2.sar_image as SI
from ceos_alos2.sar_image import caching as C

class StubPath:
    def __init__(self, exists, text): self.exists, self.text = exists, text
    def is_file(self): return self.exists
    def read_text(self): return self.text
class Mapper(dict):
    root = "/prod"; fs = None

class Torn(Exception): pass

def torn_cache(local_exists: bool, remote_exists: bool, local_torn: bool, remote_torn: bool, rpc: int) -> bool:
    """
    pre: rpc >= 1
    post: _
    """
    # environment stubs
    def loads(text, object_hook=None):
        if text == "TORN": raise json.JSONDecodeError("torn", "x", 0)
        return {"doc": text}
    C.json = type("J", (), {"loads": staticmethod(loads), "dumps": json.dumps, "JSONDecodeError": json.JSONDecodeError})
    C.decode_hierarchy = lambda doc, records_per_chunk: ("cached", doc["doc"], records_per_chunk)
    C.local_cache_location = lambda root, path: StubPath(local_exists, "TORN" if local_torn else "L")
    m = Mapper()
    if remote_exists: m["IMG.index"] = b"TORN" if remote_torn else b"R"
    # the uncached path is stubbed to return a marker
    import fsspec.implementations.dirfs as DFS
    class FakeFS:
        def __init__(self, path=None, fs=None): pass
        def open(self, path, mode='rb'): raise Torn('parse path')
    DFS.DirFileSystem = FakeFS
    SI.read_metadata = lambda f, rpc_: (_ for _ in ()).throw(Torn("parse path"))
    try:
        g = SI.open_image(m, "IMG", use_cache=True, create_cache=False, records_per_chunk=rpc)
    except Torn:
        return True      # fell back to parsing: fine
    except AttributeError:
        return True      # fell back to parsing (stub fs is None): fine
    return g[0] == "cached" and g[2] == rpc and g[1] in ("L", "R")
