"""C17.att probe: real attitude.transform_time + metadata.fix_attitude_time with a pure-python numpy shim"""
import datetime
from ceos_alos2.sar_leader import attitude as AT, metadata as MD
from ceos_alos2.hierarchy import Group, Variable

UNIT_NS = {"D": 86400 * 10**9, "ms": 10**6, "ns": 1, "s": 10**9, "us": 10**3}
class TD:  # timedelta64 array model
    def __init__(self, vals, unit): self.vals, self.unit = list(vals), unit
    def __add__(self, o):
        u = self.unit if UNIT_NS[self.unit] <= UNIT_NS[o.unit] else o.unit     # numpy promotes to the finer unit
        return TD([a * (UNIT_NS[self.unit] // UNIT_NS[u]) + b * (UNIT_NS[o.unit] // UNIT_NS[u]) for a, b in zip(self.vals, o.vals)], u)
    def astype(self, dt):
        u = dt[dt.index("[") + 1:-1]
        assert UNIT_NS[self.unit] % UNIT_NS[u] == 0
        return TD([v * (UNIT_NS[self.unit] // UNIT_NS[u]) for v in self.vals], u)
    dims = ()
class DT:  # datetime64[ns] scalar/array model: ns since epoch
    def __init__(self, vals): self.vals = vals
    def __add__(self, td): return DT([self.vals[0] + v * UNIT_NS[td.unit] for v in td.vals])

def _days(y):
    y -= 1
    return y * 365 + y // 4 - y // 100 + y // 400 - 719162       # days from 1970-01-01 to y+1-01-01
class NPShim:
    @staticmethod
    def asarray(v, dtype): return TD(v, dtype[dtype.index("[") + 1:-1])
    @staticmethod
    def array(s, dtype):
        assert dtype == "datetime64[ns]" and s.endswith("-01-01")
        return DT([_days(int(s[:4])) * 86400 * 10**9])

def att(year_idx: int, doy: int, ms: int) -> bool:
    """
    pre: 0 <= year_idx <= 35 and 1 <= doy <= 366 and 0 <= ms < 86400000
    post: _
    """
    AT.np = NPShim; MD.np = NPShim
    ok = True
    for y in range(2014, 2050):
        if y - 2014 != year_idx: continue
        t = AT.transform_time({"day_of_year": [doy], "millisecond_of_day": [ms]})
        g = Group(None, None, {"platform_position": Group(None, None, {}, {"datetime_of_first_point": f"{y}-03-04T00:00:00"}),
                               "attitude": Group(None, None, {"attitude": Group(None, None, {"time": Variable("points", t, {})}, {})}, {})}, {})
        out = MD.fix_attitude_time(g)
        got = out["attitude"]["attitude"].data["time"].data.vals[0]
        want = (_days(y) + doy - 1) * 86400 * 10**9 + ms * 10**6
        ok = ok & (got - want == 86400 * 10**9)        # the known relation: exactly one day late
    return ok
