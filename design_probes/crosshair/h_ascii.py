from ceos_alos2 import datatypes as D
from ceos_alos2.sar_leader import platform_position as PP

def ascii_int(s: str) -> bool:
    """
    pre: len(s) <= 4
    pre: all(c in " 0123456789-+" for c in s)
    post: _
    """
    try:
        got = D.AsciiInteger._decode(None, s, None, None)
    except ValueError:
        got = "err"
    t = s.strip(" ")
    if t == "": exp = -1
    else:
        sign = 1
        body = t
        if body[0] in "+-":
            sign = -1 if body[0] == "-" else 1
            body = body[1:]
        if body == "" or not all(c in "0123456789" for c in body): exp = "err"
        else:
            v = 0
            for c in body: v = v * 10 + (ord(c) - 48)
            exp = sign * v
    return got == exp

def ascii_float_blank(n: int) -> bool:
    """
    pre: 0 <= n <= 22
    post: _
    """
    got = D.AsciiFloat._decode(None, " " * n, None, None)
    return got != got

def composite(sec: float) -> bool:
    """
    pre: 0 <= sec < 86400
    post: _
    """
    got = PP.transform_composite_datetime({"date": "2020   2  29", "day_of_year": 60, "seconds_of_day": sec})
    return got.startswith("2020-02-29T")
