import copy
from ceos_alos2.dicttoolz import move_items
from ceos_alos2.transformers import as_group

def t_deepcopy(x: float, y: int) -> bool:
    """
    post: _
    """
    d = {"a": {"p": x, "q": y}, "b": "s"}
    out = move_items({("a", "t"): ["b"]}, d)
    return (out["a"]["p"] == x) | ((x != x) & (out["a"]["p"] != out["a"]["p"]))

def t_group(x: float, y: float, z: int) -> bool:
    """
    post: _
    """
    d = {"a": (x, {"units": "m"}), "b": {"c": (["i"], [y, y], {}), "n": z}, "s": "txt"}
    g = as_group(d)
    ok = (g.data["a"].data == x) | (x != x)
    ok = ok & ((g.data["b"].data["c"].data[1] == y) | (y != y)) & (g.data["b"].attrs["n"] == z)
    return ok
