import datetime
from ceos_alos2 import datatypes as D

def _days_from_civil(y, m, d):
    y -= m <= 2
    era = (y if y >= 0 else y - 399) // 400
    yoe = y - era * 400
    doy = (153 * (m + (-3 if m > 2 else 9)) + 2) // 5 + d - 1
    doe = yoe * 365 + yoe // 4 - yoe // 100 + doy
    return era * 146097 + doe - 719468

def ydms(year: int, doy: int, ms: int) -> bool:
    """
    pre: 2014 <= year <= 2049 and 1 <= doy <= 366 and 0 <= ms < 86400000
    post: _
    """
    got = D.DatetimeYdms._decode(None, {"year": year, "day_of_year": doy, "milliseconds": ms}, None, None)
    epoch = datetime.datetime(1970, 1, 1)
    delta = got - epoch
    total_ms = delta.days * 86400000 + delta.seconds * 1000 + delta.microseconds // 1000
    return total_ms == (_days_from_civil(year, 1, 1) + doy - 1) * 86400000 + ms and delta.microseconds % 1000 == 0
