import pickle, sys
sys.path.insert(0, "/tmp/probe/syn")
import mk
from ceos_alos2.sar_leader.io import parse_data
d = parse_data(mk.leader(n_att=2, n_ch=2))
paths = []
def walk(x, p):
    if isinstance(x, dict):
        for k, v in x.items(): walk(v, p + (k,))
    elif isinstance(x, list):
        for i, v in enumerate(x): walk(v, p + (i,))
    elif isinstance(x, tuple):
        walk(x[0], p + ("@0",))
    elif isinstance(x, float): paths.append(p)
walk(d, ())
paths = [p for p in paths if p[0] not in ("file_descriptor",) and "seconds_of_day" not in p]
K = len(paths); print(K, file=sys.stderr)
src = f'''
import pickle
from ceos_alos2.sar_leader import metadata as M
from ceos_alos2.hierarchy import Group, Variable
BASE = pickle.loads({pickle.dumps(d)!r})
PATHS = {paths!r}
def put(d, p, v):
    if not p: return v
    k = p[0]
    if k == "@0": return (put(d[0], p[1:], v), d[1])
    if isinstance(d, dict):
        n = dict(d); n[k] = put(d[k], p[1:], v); return n
    n = list(d); n[k] = put(d[k], p[1:], v); return n
def flat(x, out):
    if isinstance(x, (list, tuple)):
        for e in x: flat(e, out)
    else: out.append(x)
def collect(g, out):
    for k, v in g.attrs.items(): flat(v, out)
    for k, v in g.data.items():
        if isinstance(v, Group): collect(v, out)
        else:
            if hasattr(v.data, "dtype"): continue
            flat(v.data, out)
def plumb({", ".join(f"x{i}: float" for i in range(K))}) -> bool:
    """
    post: _
    """
    xs = [{", ".join(f"x{i}" for i in range(K))}]
    d = BASE
    for p, x in zip(PATHS, xs): d = put(d, p, x)
    g = M.transform_metadata(d)
    out = []
    collect(g, out)
    ids = set(id(o) for o in out)
    missing = [p for p, x in zip(PATHS, xs) if id(x) not in ids]
    return len(missing) < 400
'''
open("h_led.py", "w").write(src)
