from ceos_alos2 import array as A

def _ranges(n, hl, rs):
    return [(720 + i * rs + hl, 720 + (i + 1) * rs) for i in range(n)]

def _check(n, rpc, start, stop, step):
    br = _ranges(n, 192, 1000)
    sel = A.compute_selected_ranges(br, slice(start, stop, step))
    grouped = A.groupby_chunks(sel, rpc)
    flat = [rng for _, rngs in grouped.items() for rng in rngs]
    expect = [br[i] for i in range(n)[start:stop:step]]
    return flat == expect

def s_5_2_m2(start: int, stop: int) -> bool:
    """
    pre: -7 <= start <= 7 and -7 <= stop <= 7
    post: _
    """
    return _check(5, 2, start, stop, -2)

def s_n_rpc(n: int, rpc: int, start: int, stop: int) -> bool:
    """
    pre: 1 <= n <= 5 and 1 <= rpc <= 6
    pre: -7 <= start <= 7 and -7 <= stop <= 7
    post: _
    """
    return _check(n, rpc, start, stop, 1)
