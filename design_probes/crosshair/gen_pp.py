import pickle
import sys
sys.path.insert(0, "/tmp/probe/syn")
from synth import build, preamble
from ceos_alos2.sar_leader import platform_position as PP
from ceos_alos2.utils import to_dict
b, _ = build(PP.platform_position_record, {"preamble": preamble(4, 18, 30, 18, 20, 4680), "orbital_elements_designator": "2",
        "datetime_of_first_point": {"date": "2020   2  29", "day_of_year": 60, "seconds_of_day": 3600.5}}, {})
d = to_dict(PP.platform_position_record.parse(b))
# enumerate float leaves
paths = []
def walk(x, p):
    if isinstance(x, dict):
        for k, v in x.items(): walk(v, p + (k,))
    elif isinstance(x, list):
        for i, v in enumerate(x): walk(v, p + (i,))
    elif isinstance(x, tuple):
        walk(x[0], p + ("@0",))
    elif isinstance(x, float): paths.append(p)
walk(d, ())
print(len(paths), file=sys.stderr)
K = len(paths)
src = f'''
import pickle
from ceos_alos2.sar_leader import platform_position as PP
from ceos_alos2.hierarchy import Group, Variable
BASE = pickle.loads({pickle.dumps(d)!r})
PATHS = {paths!r}
def setp(d, p, v):
    *h, t = p
    for k in h:
        d = d[k] if k != "@0" else d
    if t == "@0":
        raise AssertionError
    d[t] = v
def put(d, p, v):
    # rebuild along the path (tuples are immutable)
    if not p: return v
    k = p[0]
    if k == "@0": return (put(d[0], p[1:], v), d[1])
    if isinstance(d, dict):
        n = dict(d); n[k] = put(d[k], p[1:], v); return n
    n = list(d); n[k] = put(d[k], p[1:], v); return n
def collect(g, prefix, out):
    for k, v in g.attrs.items(): out[prefix + "@" + k] = v
    for k, v in g.data.items():
        if isinstance(v, Group): collect(v, prefix + "/" + k, out)
        else: out[prefix + "/" + k] = v.data
def plumb({", ".join(f"x{i}: float" for i in range(K))}) -> bool:
    """
    post: _
    """
    xs = [{", ".join(f"x{i}" for i in range(K))}]
    d = BASE
    for p, x in zip(PATHS, xs): d = put(d, p, x)
    g = PP.transform_platform_position(d)
    out = {{}}
    collect(g, "", out)
    # every float leaf lands somewhere unchanged except ignored; check a few
    return out["/orbital_elements/position/x"] is xs[0] and out["/positions/position/x"][3] is xs[PATHS.index(("positions", 3, "position", "x", "@0"))]
'''
open("h_pp.py", "w").write(src)
