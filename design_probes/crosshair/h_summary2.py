from ceos_alos2 import summary as S

def line_roundtrip(key: str, val: str) -> bool:
    """
    pre: len(key) <= 3 and len(val) <= 3
    pre: (key + '="').find('="') == len(key)
    pre: chr(10) not in key and chr(10) not in val
    post: _
    """
    line = "Abc_" + key + '="' + val + '"'
    try:
        got = S.parse_line(line)
    except ValueError:
        return False
    return got["keyword"] == key and got["value"] == val
