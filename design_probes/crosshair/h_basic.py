"""C02.basic probe: backend keys (row key, col key) against numpy basic-indexing semantics on an abstract position matrix"""
from ceos_alos2 import array as A
import numpy as np

class Span:
    def __init__(self, lo, hi): self.lo, self.hi = lo, hi
    def __len__(self): return self.hi - self.lo
    def __getitem__(self, s):
        n = self.hi - self.lo
        a = 0 if s.start is None else s.start; b = n if s.stop is None else s.stop
        a = max(n + a, 0) if a < 0 else min(a, n)
        b = max(n + b, 0) if b < 0 else min(b, n)
        if b < a: b = a
        return Span(self.lo + a, self.lo + b)
class F:
    def __init__(self, size, log): self.size, self.pos, self.log = size, 0, log
    def seek(self, o): self.pos = o
    def read(self, n):
        lo = min(self.pos, self.size); hi = min(self.pos + n, self.size)
        self.log.append((self.pos, n)); self.pos = hi
        return Span(lo, hi)
    def __enter__(self): return self
    def __exit__(self, *a): return False
class FS:
    def __init__(self, size): self.size, self.log, self.opens = size, [], 0
    def open(self, url, mode="rb"):
        self.opens += 1; return F(self.size, self.log)

class Mat:
    """stand-in for the stacked ndarray: rows are spans; indexing follows numpy basic indexing with python range semantics"""
    def __init__(self, rows, m, bps): self.rows, self.m, self.bps = rows, m, bps
    def __getitem__(self, key):
        rk, ck = key
        rows = self.rows[rk] if isinstance(rk, slice) else [self.rows[rk]]
        cols = list(range(self.m)[ck]) if isinstance(ck, slice) else [range(self.m)[ck]]
        shape = (() if not isinstance(rk, slice) else (len(rows),)) + (() if not isinstance(ck, slice) else (len(cols),))
        return shape, [[(r.lo + c * self.bps) for c in cols] for r in rows]

_orig = (A.parse_data, A.np)
class _NP:
    def __getattr__(self, k): return getattr(np, k)

def _run(n, m, rpc, H, rk, ck):
    bps = 2
    L = H + m * bps
    br = [(720 + i * L + H, 720 + (i + 1) * L) for i in range(n)]
    fs = FS(720 + n * L)
    A.parse_data = lambda part, type_code: part
    shim = _NP(); shim.stack = lambda parts, axis=0: Mat(list(parts), m, bps); shim.array = lambda x, *a, **k: x
    A.np = shim
    try:
        arr = A.Array(fs=fs, url="IMG", byte_ranges=br, shape=(n, m), dtype="uint16", type_code="IU2", records_per_chunk=rpc)
        got = arr[(rk, ck)]
    finally:
        A.parse_data, A.np = _orig
    # oracle: numpy basic indexing on the position matrix
    rsel = list(range(n)[rk]) if isinstance(rk, slice) else [range(n)[rk]]
    csel = list(range(m)[ck]) if isinstance(ck, slice) else [range(m)[ck]]
    shape = (() if not isinstance(rk, slice) else (len(rsel),)) + (() if not isinstance(ck, slice) else (len(csel),))
    want = [[720 + r * L + H + c * bps for c in csel] for r in rsel]
    if not isinstance(got, tuple): return False
    return got[0] == shape and got[1] == want

def row_slice_3_2(start: int, stop: int, H: int) -> bool:
    """
    pre: -6 <= start <= 6 and -6 <= stop <= 6 and 0 < H < 100000
    post: _
    """
    ok = True
    for step in (1, 2):
        ok = ok & _run(3, 3, 2, H, slice(start, stop, step), slice(None))
    return ok

def row_int(n: int, k: int, rpc: int, H: int) -> bool:
    """
    pre: 1 <= n <= 4 and 0 <= k < n and 1 <= rpc <= 5 and 0 < H < 100000
    post: _
    """
    return _run(n, 3, rpc, H, k, slice(None))
