from ceos_alos2 import datatypes as D

class Tok:
    def __init__(self, kind, s): self.kind, self.s = kind, s
    def __eq__(self, o): return isinstance(o, Tok) and self.kind == o.kind and self.s == o.s

def ascii_int(s: str) -> bool:
    """
    pre: len(s) <= 6 and all(ord(c) < 128 for c in s)
    post: _
    """
    D.int = lambda x: Tok("int", x)
    try:
        got = D.AsciiInteger._decode(None, s, None, None)
    finally:
        del D.int
    # independent reference for "padding stripped": drop leading/trailing blanks
    i, j = 0, len(s)
    while i < j and s[i] in " \t\n\r\x0b\x0c\x1c\x1d\x1e\x1f\x85\xa0": i += 1
    while j > i and s[j - 1] in " \t\n\r\x0b\x0c\x1c\x1d\x1e\x1f\x85\xa0": j -= 1
    t = s[i:j]
    return got == (-1 if t == "" else Tok("int", t))
