import z3, time
F = z3.Float32()
re_, im = z3.FP("re", F), z3.FP("im", F)
rm = z3.RNE()
zero, one = z3.FPVal(0.0, F), z3.FPVal(1.0, F)
# numpy: 1j * imag  (python complex scalar (0+1j) times float32 array -> complex64): (a+bi)(c+di) with a=0,b=1,c=im,d=0
pr = z3.fpSub(rm, z3.fpMul(rm, zero, im), z3.fpMul(rm, one, zero))
pi = z3.fpAdd(rm, z3.fpMul(rm, zero, zero), z3.fpMul(rm, one, im))
# real + (pr + pi j): real is float32 array promoted to complex64: (re + 0j) + (pr + pi j)
outr = z3.fpAdd(rm, re_, pr)
outi = z3.fpAdd(rm, zero, pi)
s = z3.Solver()
s.add(z3.Or(outr != re_, outi != im))   # structural (bit-level modulo NaN payload) inequality
t0 = time.time(); r = s.check(); print(r, time.time() - t0)
m = s.model(); print(m[re_], m[im])
# block classes and enumerate a few
for _ in range(4):
    s.add(z3.Or(z3.Not(z3.fpIsInf(im)) if z3.is_true(m.eval(z3.fpIsInf(im))) else z3.BoolVal(True)))
    s.add(z3.Or(re_ != m[re_], im != m[im]))
    if s.check() != z3.sat: break
    m = s.model(); print(m[re_], m[im])
# after fix (bit copy): out = (re, im)
s2 = z3.Solver(); s2.add(z3.Or(re_ != re_, im != im)); print("fixed:", s2.check())
