import z3, time, re
S = z3.StringSort()
notnl = z3.Intersect(z3.AllChar(z3.ReSort(S)), z3.Complement(z3.Re("\n")))
letter = z3.Union(z3.Range("a", "z"), z3.Range("A", "Z"))
R = z3.Concat(z3.Loop(letter, 3, 3), z3.Re("_"), z3.Star(notnl), z3.Re('="'), z3.Star(notnl), z3.Re('"'))
rest = z3.Concat(z3.Re('="'), z3.Star(notnl), z3.Re('"'))   # what must match after keyword
line, kw, val, sec = z3.Strings("line kw val sec")
K = 14
def lazy_model(line, sec, kw, val):
    c = [line == z3.Concat(sec, z3.StringVal("_"), kw, z3.StringVal('="'), val, z3.StringVal('"')),
         z3.InRe(sec, z3.Loop(letter, 3, 3)), z3.InRe(kw, z3.Star(notnl)), z3.InRe(val, z3.Star(notnl))]
    # laziness of kw: no shorter j such that line[4+j:] in rest  and line[4:4+j] in notnl*
    for j in range(K):
        c.append(z3.Implies(j < z3.Length(kw), z3.Not(z3.InRe(z3.SubString(line, 4 + j, z3.Length(line) - 4 - j), rest))))
    return z3.And(*c)
# reference: first occurrence of '="' after position 4 splits; value up to last char which must be '"'
def ref_model(line, sec, kw, val):
    i = z3.IndexOf(line, z3.StringVal('="'), 4)
    return z3.And(z3.InRe(z3.SubString(line, 0, 3), z3.Loop(letter, 3, 3)), z3.SubString(line, 3, 1) == z3.StringVal("_"),
                  i >= 4, z3.Length(line) >= i + 3, z3.SubString(line, z3.Length(line) - 1, 1) == z3.StringVal('"'),
                  z3.Not(z3.Contains(line, z3.StringVal("\n"))),
                  sec == z3.SubString(line, 0, 3), kw == z3.SubString(line, 4, i - 4), val == z3.SubString(line, i + 2, z3.Length(line) - i - 3))
kw2, val2, sec2 = z3.Strings("kw2 val2 sec2")
for name, f in [("impl parses but ref differs", z3.And(lazy_model(line, sec, kw, val), ref_model(line, sec2, kw2, val2), z3.Or(kw != kw2, val != val2, sec != sec2))),
                ("impl accepts, ref rejects", z3.And(z3.InRe(line, R), z3.Not(z3.Exists([sec2, kw2, val2], ref_model(line, sec2, kw2, val2))))),
                ]:
    s = z3.Solver(); s.set("timeout", 120000)
    s.add(z3.Length(line) <= K, f)
    t0 = time.time(); r = s.check(); print(name, r, round(time.time() - t0, 2), s.model()[line] if r == z3.sat else "")
