import z3, time
K = 16
c = [z3.BitVec(f"c{i}", 8) for i in range(K)]
n = z3.Int("n")
def ch(x): return z3.BitVecVal(ord(x), 8)
def is_letter(x): return z3.Or(z3.And(z3.UGE(x, ch("a")), z3.ULE(x, ch("z"))), z3.And(z3.UGE(x, ch("A")), z3.ULE(x, ch("Z"))))
def notnl(x): return x != ch("\n")
# implementation semantics (python re, leftmost, lazy): unrolled.  match exists with keyword ending at j (j = index of '=' of the separator)
def rest_ok(j):  # line[j:] matches ="  .*?  "  fullmatch  -> c[j]=='=' , c[j+1]=='"', n-1 >= j+2, c[n-1]=='"', no newline in between
    conds = [n >= j + 3]
    if j + 1 >= K: return z3.BoolVal(False)
    conds += [c[j] == ch("="), c[j + 1] == ch('"')]
    conds += [z3.Or(*[z3.And(n == m, c[m - 1] == ch('"')) for m in range(j + 3, K + 1)])]
    conds += [z3.Implies(z3.And(i >= j + 2, i < n - 1), notnl(c[i])) for i in range(j + 2, K)]
    return z3.And(*conds)
head = z3.And(n >= 4, is_letter(c[0]), is_letter(c[1]), is_letter(c[2]), c[3] == ch("_"))
def kw_ok(j): return z3.And(*[z3.Implies(i < j, notnl(c[i])) for i in range(4, K)])
impl_j = [z3.And(head, kw_ok(j), rest_ok(j), *[z3.Not(z3.And(kw_ok(jj), rest_ok(jj))) for jj in range(4, j)]) for j in range(4, K)]
impl_valid = z3.Or(*impl_j)
J = z3.Int("J")   # impl's keyword end
impl_sem = z3.Or(*[z3.And(J == j, impl_j[j - 4]) for j in range(4, K)])
# reference: first occurrence of =" at/after 4
def occ(j): return z3.And(j + 1 < n, c[j] == ch("="), c[j + 1] == ch('"')) if j + 1 < K else z3.BoolVal(False)
I = z3.Int("I")
ref_first = z3.Or(*[z3.And(I == j, occ(j), *[z3.Not(occ(jj)) for jj in range(4, j)]) for j in range(4, K)])
ref_valid = z3.And(head, ref_first, n >= I + 3, z3.Or(*[z3.And(n == m, c[m - 1] == ch('"')) for m in range(1, K + 1)]), *[z3.Implies(i < n, notnl(c[i])) for i in range(K)])
s = z3.Solver(); s.add(n >= 0, n <= K)
t0 = time.time()
s.push(); s.add(impl_sem, ref_valid, I != J); print("split differs:", s.check(), round(time.time() - t0, 2)); s.pop()
s.push(); s.add(impl_valid, z3.Not(z3.Exists([I], ref_valid))); r = s.check(); print("impl valid, ref invalid:", r, round(time.time() - t0, 2))
if r == z3.sat:
    m = s.model(); L = m[n].as_long(); print(repr(bytes(m.eval(c[i], model_completion=True).as_long() for i in range(L))))
s.pop()
s.push(); s.add(z3.Not(impl_valid), ref_valid); r = s.check(); print("ref valid, impl invalid:", r, round(time.time() - t0, 2))
if r == z3.sat:
    m = s.model(); L = m[n].as_long(); print(repr(bytes(m.eval(c[i], model_completion=True).as_long() for i in range(L))))
s.pop()
