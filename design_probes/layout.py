"""prototype: symbolic layout interpreter over live construct objects"""
import construct as c, z3
from ceos_alos2 import datatypes as D
from ceos_alos2.sar_image import enums as E

class Ctx(dict):
    """construct-like context with attribute access, holding z3 terms / python values"""
    __getattr__ = dict.__getitem__

class Leaf:
    def __init__(self, path, kind, off, length, guard=None):
        self.path, self.kind, self.off, self.length = path, kind, off, length
    def __repr__(self): return f"{'.'.join(map(str,self.path))}: {self.kind} @ {z3.simplify(self.off) if z3.is_expr(self.off) else self.off} +{self.length}"

class Interp:
    def __init__(self):
        self.leaves = []; self.constraints = []; self.fresh = 0
    def ev(self, e, ctx):
        return e(ctx) if callable(e) else e
    def sym_int(self, name):
        self.fresh += 1
        return z3.Int(f"{name}")
    def run(self, con, pos, ctx, path, kind=()):
        """returns (new_pos, value)"""
        if isinstance(con, c.Renamed):
            return self.run(con.subcon, pos, ctx, path, kind)
        if isinstance(con, c.Struct):
            my = Ctx(_=ctx)
            for sc in con.subcons:
                pos, val = self.run(sc, pos, my, path + (sc.name,), ())
                if sc.name: my[sc.name] = val
            return pos, my
        if isinstance(con, c.Array):
            count = self.ev(con.count, ctx)
            if isinstance(count, int):
                vals = []
                for i in range(count):
                    pos, v = self.run(con.subcon, pos, ctx, path + (i,), ())
                    vals.append(v)
                return pos, vals
            # symbolic count: summarise with a generic index
            self.constraints.append(count >= 0)
            idx = z3.Int("i_" + "_".join(map(str, path)))
            sub = Interp()
            end, v = sub.run(con.subcon, 0, ctx, (), ())
            size = z3.simplify(end) if z3.is_expr(end) else end
            assert isinstance(size, int) or z3.is_int_value(size), ("variable-size element", path, size)
            size = size if isinstance(size, int) else size.as_long()
            for lf in sub.leaves:
                self.leaves.append(Leaf(path + (idx,) + lf.path, lf.kind, pos + idx * size + lf.off, lf.length))
            self.constraints += [z3.And(idx >= 0, idx < count)]
            return pos + count * size, ("array", count, v)
        if isinstance(con, c.FormatField):
            self.leaves.append(Leaf(path, kind + (("fmt", con.fmtstr),), pos, con.length))
            return pos + con.length, z3.Int("v_" + "_".join(map(str, path)))
        if isinstance(con, (D.AsciiInteger, D.AsciiFloat, D.PaddedString)):
            fs = con.subcon.subcon
            n = self.ev(fs.length, ctx)
            if not isinstance(n, int): self.constraints.append(n >= 0)
            self.leaves.append(Leaf(path, kind + ((type(con).__name__,),), pos, n))
            val = z3.Int("v_" + "_".join(map(str, path))) if isinstance(con, D.AsciiInteger) else None
            return pos + n, val
        if isinstance(con, D.AsciiComplex):
            return self.run(con.subcon, pos, ctx, path, kind + (("AsciiComplex",),))
        if isinstance(con, D.Factor):
            return self.run(con.subcon, pos, ctx, path, kind + (("Factor", con.factor),))
        if isinstance(con, D.Metadata):
            return self.run(con.subcon, pos, ctx, path, kind + (("Metadata", tuple(sorted(con.attrs.items()))),))
        if isinstance(con, c.Enum):
            return self.run(con.subcon, pos, ctx, path, kind + (("Enum", tuple(sorted((str(k), v) for k, v in con.encmapping.items()))),))
        if isinstance(con, (D.DatetimeYdms, D.DatetimeYdus, D.StripNullBytes, E.Flag)):
            return self.run(con.subcon, pos, ctx, path, kind + ((type(con).__name__,),))
        if isinstance(con, c.Bytes):
            self.leaves.append(Leaf(path, kind + (("Bytes",),), pos, con.length)); return pos + con.length, None
        tn = type(con).__name__
        if tn == "Tell": return pos, pos
        if tn == "Computed": return pos, self.ev(con.func, ctx)
        if tn == "Seek":
            at = self.ev(con.at, ctx); return at, at
        raise TypeError((tn, path))

if __name__ == "__main__":
    import time
    from ceos_alos2.sar_leader.structure import sar_leader_record
    t0 = time.time()
    it = Interp()
    end, val = it.run(sar_leader_record, 0, Ctx(), ())
    print("leaves", len(it.leaves), "constraints", len(it.constraints), time.time() - t0)
    for lf in it.leaves[:3] + it.leaves[-3:]: print(lf)
    print("end =", z3.simplify(end))
