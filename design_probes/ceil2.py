import z3, time
# standard model of rounding: fl(n/r) = (n/r)(1+d), |d| <= 2^-53 ; exact if the quotient is an integer (n = k r)
n, r, k = z3.Ints("n r k")
d = z3.Real("d"); q = z3.Real("q"); f = z3.Real("f")
u = z3.RealVal(2) ** -53
s = z3.Solver()
s.add(0 <= n, n <= 999999, 1 <= r, r < 2**31)
s.add(q * z3.ToReal(r) == z3.ToReal(n), -u <= d, d <= u, f == q * (1 + d))
# k = integer ceil of n/r
s.add((k - 1) * r < n, n <= k * r)
# exact case: if n == k r then f == q (division of representable quotient is exact)
s.add(z3.Implies(n == k * r, f == q))
# violation: ceil(f) != k  <=>  not (k-1 < f <= k)
s.add(z3.Not(z3.And(z3.ToReal(k) - 1 < f, f <= z3.ToReal(k))))
t0 = time.time(); s.set("timeout", 120000); print("NRA:", s.check(), round(time.time() - t0, 2))
# reduced bit-precise
W = 16
nb, rb = z3.BitVecs("nb rb", W)
F = z3.Float64()
qf = z3.fpDiv(z3.RNE(), z3.fpSignedToFP(z3.RNE(), z3.ZeroExt(16, nb), F), z3.fpSignedToFP(z3.RNE(), z3.ZeroExt(16, rb), F))
ci = z3.fpToSBV(z3.RTZ(), z3.fpRoundToIntegral(z3.RTP(), qf), z3.BitVecSort(32))
s2 = z3.Solver(); s2.add(z3.ULE(nb, 255), z3.UGE(rb, 1), z3.ULE(rb, 255), ci != z3.UDiv(z3.ZeroExt(16, nb) + z3.ZeroExt(16, rb) - 1, z3.ZeroExt(16, rb)))
t0 = time.time(); s2.set("timeout", 200000); print("FP reduced (n,r<=255):", s2.check(), round(time.time() - t0, 2))
