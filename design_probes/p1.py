import numpy as np, struct
from ceos_alos2.array import parse_data
for re_, im in [(1.0, float('inf')), (-0.0, 2.0), (3.0, -0.0), (float('nan'), 1.0), (1.0, float('nan')), (float('inf'), float('-inf'))]:
    b = struct.pack(">ff", re_, im)
    out = parse_data(b, "C*8")
    print(re_, im, '->', out, out.dtype, struct.pack(">ff", out.real[0], out.imag[0]) == b)
# nan payloads
b = bytes.fromhex("7fc00001" "7f800001")
out = parse_data(b, "C*8"); print(out, np.array([out.real[0], out.imag[0]], dtype=">f4").tobytes().hex())
