import re, time
import re._parser as sp, re._constants as sc
import z3

def cls_to_re(items):
    parts = []
    neg = False
    for op, av in items:
        if op is sc.NEGATE: neg = True
        elif op is sc.LITERAL: parts.append(z3.Re(chr(av)))
        elif op is sc.RANGE: parts.append(z3.Range(chr(av[0]), chr(av[1])))
        elif op is sc.CATEGORY:
            if av is sc.CATEGORY_DIGIT: parts.append(z3.Range("0", "9"))
            else: raise NotImplementedError(av)
        else: raise NotImplementedError(op)
    r = parts[0] if len(parts) == 1 else z3.Union(*parts)
    if neg: r = z3.Intersect(z3.AllChar(z3.ReSort(z3.StringSort())), z3.Complement(r))
    return r

def to_re(tree, groups):
    """return z3 regex; groups: dict index -> z3 regex of group (for decomposition)"""
    seq = []
    for op, av in tree:
        if op is sc.LITERAL: seq.append(z3.Re(chr(av)))
        elif op is sc.IN: seq.append(cls_to_re(av))
        elif op is sc.ANY: seq.append(z3.Intersect(z3.AllChar(z3.ReSort(z3.StringSort())), z3.Complement(z3.Re("\n"))))
        elif op in (sc.MAX_REPEAT, sc.MIN_REPEAT):
            lo, hi, sub = av
            r = to_re(sub, groups)
            if hi is sc.MAXREPEAT:
                seq.append(z3.Concat(z3.Loop(r, lo, lo), z3.Star(r)) if lo else z3.Star(r))
            else: seq.append(z3.Loop(r, lo, hi))
        elif op is sc.SUBPATTERN:
            gid, add, dele, sub = av
            r = to_re(sub, groups)
            if gid is not None: groups[gid] = r
            seq.append(r)
        elif op is sc.BRANCH:
            _, alts = av
            seq.append(z3.Union(*[to_re(a, groups) for a in alts]))
        else: raise NotImplementedError(op)
    if not seq: return z3.Re("")
    return seq[0] if len(seq) == 1 else z3.Concat(*seq)

from ceos_alos2 import decoders as D
for name in ["scene_id_re", "product_id_re", "scan_info_re", "fname_re"]:
    pat = getattr(D, name)
    g = {}
    r = to_re(sp.parse(pat.pattern, pat.flags), g)
    print(name, "groups", {k: i for k, i in pat.groupindex.items()}, len(g))

pat = D.product_id_re
g = {}
R = to_re(sp.parse(pat.pattern, pat.flags), g)
def union_keys(d): 
    ks = [z3.Re(k) for k in d]
    return ks[0] if len(ks) == 1 else z3.Union(*ks)
T = z3.Concat(union_keys(D.observation_modes), union_keys(D.observation_directions), union_keys(D.processing_levels), union_keys(D.processing_options), union_keys(D.map_projections), union_keys(D.orbit_directions))
s = z3.String("s")
t0 = time.time()
sol = z3.Solver(); sol.add(z3.InRe(s, T), z3.Not(z3.InRe(s, R)))
print(sol.check(), sol.model()[s] if sol.check() == z3.sat else None, time.time() - t0)
# the other direction: accepted by regex but not in table language -> must raise ValueError through lookup
sol = z3.Solver(); sol.add(z3.InRe(s, R), z3.Not(z3.InRe(s, T)))
t0 = time.time(); print(sol.check(), sol.model()[s], time.time() - t0)
