"""C05 - record framing: variable-length / optional records consume exactly the bytes the file declares (DESIGN 5/C05).
All obligations are z3 LIA queries over the live construct layouts, unbounded in the symbolic counts and lengths."""
import io as _io

import z3

from vlib.core import Ob

LEVEL = "other"
EXPLANATION = (
    "z3 (linear integer arithmetic) over terms produced by interpreting the live construct Structs with a symbolic stream position: "
    "the repository's own `this`-expressions for paddings and counts are executed on z3 terms. For every admissible count/length "
    "(unbounded integers, not enumerated) the consumed size equals the declared record length / pinned fixed size, and the start "
    "offset of every following record equals the pinned expression. read_sar_trailer's slicing of the low-resolution images is "
    "decided by CrossHair on the real function. Counterexamples are replayed with the real construct parser on hand-built records."
)
ASSUMPTIONS = [
    "the interpreter's model of each construct class (validated against the real parser on every run: validate_stubs)",
    "fixed record sizes 720/4096/1620/4680/9860/1620/5000 and 360-byte volume records are the pinned format constants",
]
TRUSTED = ["z3 5.1", "vlib.layout class models", "construct's sequential parsing of Struct/Array"]

FIXED = {"dataset_summary": 4096, "map_projection": 1620, "platform_position": 4680, "radiometric_data": 9860,
         "data_quality_summary": 1620, "facility_related_data_5": 5000}


def obligations(tier):
    S = "ceos_alos2.sar_leader."
    return [
        Ob("C05.attitude", "L", "attitude record with n points and declared length L consumes exactly L bytes whenever the padding is non-negative; "
           "admissible n are 0..floor((L-16)/120) (136 for 16384)", [S + "attitude:attitude_record", S + "attitude:attitude_point"],
           bounds="forall n>=0, L (unbounded)", call="props.c05:ob_attitude"),
        Ob("C05.dataquality", "L", "data-quality record consumes 1620 bytes for every channel count 0..16 with both paddings non-negative",
           [S + "data_quality_summary:data_quality_summary_record"], bounds="forall 0<=n<=16", call="props.c05:ob_dq"),
        Ob("C05.facility", "L", "facility records 1-4 consume their declared length for every L>=66; facility 5 consumes 5000",
           [S + "facility_related_data:facility_related_data_record", S + "facility_related_data:facility_related_data_5_record"],
           bounds="forall L>=66 (unbounded)", call="props.c05:ob_facility"),
        Ob("C05.leader", "L", "in the whole leader every record starts where the preceding declared lengths end: offsets are the pinned expressions in "
           "(c, L_att, L_f1..4); sentinel fields of the records behind a variable one sit at start+pinned offset",
           [S + "structure:sar_leader_record", S + "file_descriptor:file_descriptor_record"],
           bounds="forall c in {0,1}, n_att, L_att, n_ch, L_f1..4 admissible (unbounded)", call="props.c05:ob_leader"),
        Ob("C05.volume", "L", "volume directory with n file-pointer records: text record at 360*(1+n), total 360*(2+n)",
           ["ceos_alos2.volume_directory.structure:volume_directory_record"], bounds="forall n>=0 (unbounded)", call="props.c05:ob_volume"),
        Ob("C05.trailer.layout", "L", "trailer descriptor: padding 720-522-26n >= 0 and consumed bytes <= 720 for 0<=n<=7; count field at 490, image size entries at 496+26i (the struct consumes 694 of the 720 bytes read)",
           ["ceos_alos2.sar_trailer.file_descriptor:file_descriptor_record"], bounds="forall 0<=n<=7", call="props.c05:ob_trailer"),
        Ob("C05.trailer.read", "X", "read_sar_trailer cuts image k from [sum_{j<k} len_j, sum_{j<=k} len_j) of the bytes after the 720-byte descriptor, with its own shape and sample size",
           ["ceos_alos2.sar_trailer:read_sar_trailer"], bounds="forall lengths, shapes, sample sizes (unbounded ints); image count 0..3",
           harness="harness/h_trailer.py", func="trailer_ok", timeout=300),
        Ob("C05.e2e", "E", "witness replay with the real parser on synthesised leaders: 1/5/136 attitude points, 1/8/9/12/16 channels, facility lengths 66..5000, with/without map "
           "projection, short attitude record: every record behind the variable ones carries its own preamble and sentinel values",
           [S + "io:parse_data", S + "structure:sar_leader_record"], bounds="concrete replays (not the deciding step)", call="props.e2e:ob_framing", wall_timeout=900),
    ]


def _blank_record(L, head=b""):
    """a record of declared length L: binary preamble, given ASCII head, blanks (independent of the repository structs)"""
    pre = (1).to_bytes(4, "big") + bytes([18, 40, 18, 20]) + int(L).to_bytes(4, "big")
    body = pre + head
    return body + b" " * (L - len(body))


def _consumed(struct, data):
    st = _io.BytesIO(data)
    struct.parse_stream(st)
    return st.tell()


def _finish(S, key, replay):
    res = S.result()
    if res["verdict"] == "violated":
        rep = replay(res["cex"])
        res["cex"] = {"model": res["cex"], "replay": rep}
        res["finding_key"] = key
        if not rep.get("reproduced"):
            res.update(verdict="inconclusive", reason="framing counterexample did not reproduce with the real construct parser")
    return res


def ob_attitude(tier):
    from ceos_alos2.sar_leader.attitude import attitude_record
    from vlib import layout
    from vlib.smt import Session

    S = Session(cross=(tier == "thorough"))
    p, L, n = z3.Ints("p L n")
    it, end, val = layout.interpret(attitude_record, pos=p, values={("preamble", "record_length"): L, ("number_of_points",): n})
    S.feasible("attitude:feasible", it.constraints + [L == 16384, n == 136], show=[L, n])
    S.holds("attitude:consumes-L", it.constraints, end == p + L, show=[p, L, n])
    S.holds("attitude:admissible-iff", [n >= 0], z3.And(*it.constraints) == (16 + 120 * n <= L), show=[L, n])
    S.holds("attitude:max-136", it.constraints + [L == 16384], n <= 136, show=[n])
    # point i, field offsets: point i starts at p+16+120 i
    for lf in it.leaves:
        if lf.path[:2] == ("data_points", "*") and lf.path[2:] == ("time", "day_of_year"):
            (idx, cnt, _), = lf.idx
            S.holds("attitude:point-offset", it.constraints + [idx >= 0, idx < cnt], lf.off == p + 16 + 120 * idx, show=[idx])
    return _finish(S, "C05.attitude", lambda cex: _replay_counts(
        attitude_record, [(16384, b"%4d" % k) for k in (0, 1, 2, 135, 136)] + [(16 + 120 * 3, b"   3"), (1000, b"   8")]))


def _replay_counts(struct, cases, size=None):
    bad = []
    for L, head in cases:
        try:
            got = _consumed(struct, _blank_record(L, head) + b"X" * 64)
            if got != (size or L):
                bad.append({"L": L, "head": head.decode(), "consumed": got})
        except Exception as e:  # noqa: BLE001
            bad.append({"L": L, "head": head.decode(), "error": type(e).__name__})
    return {"reproduced": bool(bad), "failed": bad[:5]}


def ob_dq(tier):
    from ceos_alos2.sar_leader.data_quality_summary import data_quality_summary_record
    from vlib import layout
    from vlib.smt import Session

    S = Session(cross=(tier == "thorough"))
    p, n = z3.Ints("p n")
    it, end, val = layout.interpret(data_quality_summary_record, pos=p, values={("number_of_channels",): n})
    dom = [n >= 0, n <= 16]
    S.feasible("dq:feasible", it.constraints + dom + [n == 16], show=[n])
    S.holds("dq:paddings-nonneg", dom, z3.And(*it.constraints), show=[n])
    S.holds("dq:consumes-1620", dom, end == p + 1620, show=[n])
    return _finish(S, "C05.dataquality", lambda cex: _replay_counts(
        data_quality_summary_record, [(1620, b" " * 14 + b"%4d" % k) for k in range(0, 17)], size=1620))


def ob_facility(tier):
    from ceos_alos2.sar_leader.facility_related_data import facility_related_data_5_record, facility_related_data_record
    from vlib import layout
    from vlib.smt import Session

    S = Session(cross=(tier == "thorough"))
    p, L = z3.Ints("p L")
    it, end, val = layout.interpret(facility_related_data_record, pos=p, values={("preamble", "record_length"): L})
    S.feasible("facility:feasible", it.constraints + [L == 66], show=[L])
    S.holds("facility:admissible-iff", [], z3.And(*it.constraints) == (L >= 66), show=[L])
    S.holds("facility:consumes-L", it.constraints, end == p + L, show=[p, L])
    it5, end5, _ = layout.interpret(facility_related_data_5_record, pos=p)
    S.holds("facility5:5000", it5.constraints, end5 == p + 5000, show=[p])

    def replay(cex):
        a = _replay_counts(facility_related_data_record, [(L_, b"") for L_ in (66, 67, 100, 5000)])
        b = _replay_counts(facility_related_data_5_record, [(5000, b"")], size=5000)
        return {"reproduced": a["reproduced"] or b["reproduced"], "failed": a["failed"] + b["failed"]}

    return _finish(S, "C05.facility", replay)


def leader_terms():
    """interpret the whole leader with symbolic structure parameters"""
    from ceos_alos2.sar_leader.structure import sar_leader_record
    from vlib import layout

    c, natt, Latt, nch = z3.Ints("c natt Latt nch")
    Lf = [z3.Int(f"Lf{i}") for i in range(1, 5)]
    values = {("file_descriptor", "map_projection", "number_of_records"): c,
              ("attitude", "preamble", "record_length"): Latt, ("attitude", "number_of_points"): natt,
              ("data_quality_summary", "number_of_channels"): nch}
    for i in range(1, 5):
        values[(f"facility_related_data_{i}", "preamble", "record_length")] = Lf[i - 1]
    it, end, val = layout.interpret(sar_leader_record, values=values)
    return dict(c=c, natt=natt, Latt=Latt, nch=nch, Lf=Lf), it, end, val


def leader_starts(P):
    c, Latt, Lf = P["c"], P["Latt"], P["Lf"]
    starts = {"file_descriptor": 0, "dataset_summary": 720, "map_projection": 720 + 4096}
    pos = 720 + 4096 + 1620 * c
    for name, size in (("platform_position", 4680), ("attitude", Latt), ("radiometric_data", 9860), ("data_quality_summary", 1620),
                       ("facility_related_data_1", Lf[0]), ("facility_related_data_2", Lf[1]), ("facility_related_data_3", Lf[2]),
                       ("facility_related_data_4", Lf[3]), ("facility_related_data_5", 5000)):
        starts[name] = pos
        pos = pos + size
    return starts, pos


def ob_leader(tier):
    from vlib.smt import Session

    S = Session(cross=(tier == "thorough"))
    P, it, end, val = leader_terms()
    starts, total = leader_starts(P)
    dom = [P["c"] >= 0, P["c"] <= 1, P["nch"] <= 16]
    S.feasible("leader:feasible", it.constraints + dom + [P["c"] == 1, P["natt"] == 136, P["Latt"] == 16384, P["nch"] == 16], show=list(P["Lf"]))
    S.holds("leader:end", it.constraints + dom, end == total, show=[P["c"], P["Latt"]] + P["Lf"])
    seen = set()
    for lf in it.leaves:
        rec = lf.path[0]
        if lf.path[1:] == ("preamble", "record_sequence_number") or lf.path[1:] == ("*", "preamble", "record_sequence_number"):
            seen.add(rec)
            extra, off = [], starts[rec]
            if lf.idx:
                (idx, cnt, _), = lf.idx
                extra = [idx >= 0, idx < cnt]
                off = off + 1620 * idx
            S.holds(f"leader:start:{rec}", it.constraints + dom + extra, lf.off == off, show=[P["c"], P["Latt"]] + P["Lf"])
    missing = set(starts) - seen
    if missing:
        S.failed.append({"label": "leader:records-missing", "model": {"missing": sorted(missing)}})
    # sentinels behind variable-length records (1-based CEOS positions: calibration factor 21, channel count field 27 ...)
    sentinels = {("radiometric_data", "calibration_factor"): 20, ("data_quality_summary", "number_of_channels"): 26,
                 ("facility_related_data_5", "record_sequence_number"): 12, ("platform_position", "number_of_data_points"): 140,
                 ("facility_related_data_2", "record_sequence_number"): 12}
    by = {lf.path: lf for lf in it.leaves}
    for path, rel in sentinels.items():
        lf = by.get(path)
        if lf is None:
            S.failed.append({"label": "leader:sentinel-missing:" + ".".join(path), "model": {}})
            continue
        S.holds("leader:sentinel:" + ".".join(path), it.constraints + dom, lf.off == starts[path[0]] + rel, show=[P["c"], P["Latt"]] + P["Lf"])

    def replay(cex):
        from vlib import synth
        from ceos_alos2.sar_leader.io import parse_data

        bad = []
        for kw in (dict(n_att=1, n_ch=1, with_mp=False, fac_len=(66, 67, 68, 69), att_len=16 + 120),
                   dict(n_att=136, n_ch=16, with_mp=True, fac_len=(100, 120, 140, 160)),
                   dict(n_att=3, n_ch=2, with_mp=True, fac_len=(5000, 66, 325000, 70), att_len=1000)):
            try:
                d = parse_data(synth.leader(overrides={"radiometric_data": {"calibration_factor": -77.25},
                                                       "facility_related_data_5": {"prf_switching_flag": 7}}, **kw))
                got = (d["radiometric_data"]["calibration_factor"][0], d["facility_related_data_5"]["prf_switching_flag"],
                       d["data_quality_summary"]["number_of_channels"], d["facility_related_data_3"]["record_sequence_number"])
                if got != (-77.25, 7, kw["n_ch"], 3):
                    bad.append({"kw": repr(kw), "got": repr(got)})
            except Exception as e:  # noqa: BLE001
                bad.append({"kw": repr(kw), "error": f"{type(e).__name__}: {str(e)[:100]}"})
        return {"reproduced": bool(bad), "failed": bad}

    return _finish(S, "C05.leader", replay)


def _volume_probes():
    """volume directories with N = 0..9 file-pointer records written from the pinned layout -> real parser: text record and pointer count"""
    from ceos_alos2.volume_directory.io import parse_data
    from vlib import specwriter as W

    bad = []
    for k in range(10):
        try:
            raw, expected = W.write("volume_directory", params={"nfp": k})
            d = parse_data(raw)
            want = expected.get(("text_record", "scene_id"))
            if d["text_record"]["scene_id"] != want or len(d["file_descriptors"]) != k:
                bad.append({"n": k, "scene_id": d["text_record"]["scene_id"], "pointers": len(d["file_descriptors"])})
        except Exception as e:  # noqa: BLE001
            bad.append({"n": k, "error": f"{type(e).__name__}: {str(e)[:80]}"})
    return {"reproduced": bool(bad), "failed": bad[:4]}


def ob_volume(tier):
    from ceos_alos2.volume_directory.structure import volume_directory_record
    from vlib import layout
    from vlib.smt import Session

    S = Session(cross=(tier == "thorough"))
    n = z3.Int("n")
    try:
        it, end, val = layout.interpret(volume_directory_record, values={("volume_descriptor", "number_of_file_pointer_records"): n})
    except layout.Unsupported as e:
        # the live struct uses a construct the layout model does not cover: no proof is possible; files written from the PINNED layout for
        # N = 0..9 still go through the real parser - a failing one is a reproduced violation, passing ones leave the obligation inconclusive
        rep = _volume_probes()
        if rep["reproduced"]:
            return {"verdict": "violated", "queries": 0, "replays": 10, "cex": {"layout model": f"not applicable: {e}", "replay": rep}, "finding_key": "C05.volume:probes:" + ",".join(str(b["n"]) for b in rep["failed"])}
        return {"verdict": "inconclusive", "reason": f"layout model not applicable to the live struct ({e}); pinned-layout probes N = 0..9 parse correctly"}
    S.feasible("volume:feasible", it.constraints + [n == 6], show=[n])
    S.holds("volume:end", it.constraints, end == 360 * (2 + n), show=[n])
    by = {lf.path: lf for lf in it.leaves}
    S.holds("volume:text-start", it.constraints, by[("text_record", "preamble", "record_sequence_number")].off == 360 * (1 + n), show=[n])
    for lf in it.leaves:
        if lf.path[:2] == ("file_descriptors", "*") and lf.path[2:] == ("preamble", "record_sequence_number"):
            (idx, cnt, _), = lf.idx
            S.holds("volume:pointer-start", it.constraints + [idx >= 0, idx < cnt], lf.off == 360 * (1 + idx), show=[idx, n])

    def replay(cex):
        from vlib import synth
        from ceos_alos2.volume_directory.io import parse_data

        bad = []
        for k in (0, 1, 4, 9):
            try:
                d = parse_data(synth.volume(n_fp=k, overrides={"text_record": {"scene_id": f"SENTINEL{k}"}}))
                if d["text_record"]["scene_id"] != f"SENTINEL{k}" or len(d["file_descriptors"]) != k:
                    bad.append({"n": k, "got": d["text_record"]["scene_id"]})
            except Exception as e:  # noqa: BLE001
                bad.append({"n": k, "error": type(e).__name__})
        return {"reproduced": bool(bad), "failed": bad}

    return _finish(S, "C05.volume", replay)


def ob_trailer(tier):
    from ceos_alos2.sar_trailer.file_descriptor import file_descriptor_record
    from vlib import layout
    from vlib.smt import Session

    S = Session(cross=(tier == "thorough"))
    n = z3.Int("n")
    it, end, val = layout.interpret(file_descriptor_record, values={("number_of_low_resolution_images",): n})
    dom = [n >= 0, n <= 7]
    S.feasible("trailer:feasible", it.constraints + dom + [n == 7], show=[n])
    S.holds("trailer:padding-nonneg", dom, z3.And(*it.constraints), show=[n])
    S.holds("trailer:within-720", dom, z3.And(end <= 720, end >= 496 + 26 * n), show=[n])
    for lf in it.leaves:
        if lf.path[:2] == ("low_resolution_image_sizes", "*") and lf.path[2:] == ("record_length",):
            (idx, cnt, _), = lf.idx
            S.holds("trailer:entry-offset", dom + [idx >= 0, idx < cnt], lf.off == 496 + 26 * idx, show=[idx, n])
    by = {lf.path: lf for lf in it.leaves}
    S.holds("trailer:count-field", [], z3.And(by[("number_of_low_resolution_images",)].off == 490, by[("number_of_low_resolution_images",)].width == 6))

    def replay(cex):
        bad = []
        for k in range(0, 8):
            raw = bytearray(b" " * 720)
            raw[0:12] = _blank_record(720)[:12]
            raw[490:496] = b"%6d" % k
            for i in range(k):
                raw[496 + 26 * i:496 + 26 * (i + 1)] = b"%8d%6d%6d%6d" % (100 + i, 10, 10 + i, 1)
            try:
                h = file_descriptor_record.parse(bytes(raw))
                got = [r.record_length for r in h.low_resolution_image_sizes]
                if got != [100 + i for i in range(k)]:
                    bad.append({"n": k, "got": got})
            except Exception as e:  # noqa: BLE001
                bad.append({"n": k, "error": type(e).__name__})
        return {"reproduced": bool(bad), "failed": bad}

    return _finish(S, "C05.trailer", replay)


def validate_stubs():
    """model conformance of the layout interpreter: for every record struct of the leader, the volume directory, the trailer and the
    image files, the (path, offset, width) list predicted by the interpreter at concrete structure parameters equals the list of
    offsets at which the independent synthesiser emitted each leaf; the real parser accepts the synthesised bytes"""
    from vlib import layout

    return {"layout_interpreter_vs_synth_leaves": layout.conformance()}
