"""C20 - blank fields mean 'missing' and padding never influences the result (DESIGN 5/C20)."""
import re

import z3

from props import c03, c04
from props.plumb import plumb_obligations
from vlib.core import Ob

LEVEL = "other"
EXPLANATION = (
    "Blank -> missing: for every all-blank field of every width 0..22 and every blank character, AsciiInteger gives -1, AsciiFloat NaN, "
    "PaddedString '' (CrossHair on the real adapters); blank header fields produce no attribute (symbolic header values, hand-written "
    "oracle); the sentinel then flows unchanged: the plumbing obligations of C03/C04 hold for ALL integer values of every field that "
    "reaches the tree, -1 included, so no exception, fabricated value or derived attribute can depend on a field being blank. "
    "Padding never influences the result: (i) z3 shows the fields of every record tile the record without overlap for every admissible "
    "structure, so the byte support of every output-carrying field is disjoint from every spare/blank/reserved area; (ii) every such "
    "area is consumed by a decoder that is total on its declared character class (PaddedString/Bytes: any content; numeric spares: any "
    "number) and (iii) none of them reaches the tree: their names are removed by remove_spares (decided on symbolic keys) or they are in "
    "the ignore lists - checked against the pinned tree tables, and replayed by overwriting every spare area of probe files with "
    "printable garbage and comparing the trees."
)
ASSUMPTIONS = c03.ASSUMPTIONS + [
    "nullable = every numeric/text field outside the structure-driving counts/lengths, enum codes and date-time texts (those keep valid concrete contents)",
    "spare/blank/reserved areas are the fields named spare*, blanks*, blank*, *reserve*, local_use_segment, or listed as ignored padding in the pinned table",
]
TRUSTED = c03.TRUSTED

SPARE_RE = re.compile(r"^(spare\d*|blanks?\d*|system_reserve|local_use_segment|.*_reserve)$")


def obligations(tier):
    to = 400 if tier == "quick" else 1200
    obs = [
        Ob("C20.blank", "X", "all-blank fields of every width 0..22 (space / tab / newline): AsciiInteger -> -1, AsciiFloat -> NaN, PaddedString -> ''",
           ["ceos_alos2.datatypes:AsciiInteger._decode", "ceos_alos2.datatypes:AsciiFloat._decode", "ceos_alos2.datatypes:PaddedString._decode"],
           bounds="forall widths 0..22, 3 blank characters, 3 adapters", harness="harness/h_adapters.py", func="ascii_blank_ok", timeout=to),
        Ob("C20.hdr", "X", "blank header fields (-1 / '') produce no attribute at all; non-blank ones their value", ["ceos_alos2.sar_image.metadata:extract_attrs"],
           bounds="forall field values >= -1", harness="harness/h_adapters.py", func="header_attrs_ok", timeout=to),
        Ob("C20.complex", "E", "complex fields: each half blank or filled independently - a blank half is NaN, the other half keeps its value, never an exception",
           ["ceos_alos2.datatypes:AsciiComplex._decode"], bounds="concrete enumeration of 8 x 8 half contents incl. blank, through the real construct parser", call="props.c04:ob_complex"),
        Ob("C20.rm", "X", "remove_spares removes exactly the keys spare<digits> / blanks<digits>, at every nesting level, and nothing else",
           ["ceos_alos2.transformers:remove_spares"], bounds="9 prefixes x 12 x 12 representative continuations (digit-range boundaries, letters, blank), symbolic indices",
           outside="keys starting with 'spareblanks' (both prefixes are stripped in a row; no field is named like that)", harness="harness/h_adapters.py",
           func="remove_spares_ok", timeout=to),
        Ob("C20.spare", "L", "spare / blank / reserved areas: disjoint from every other field for every structure (tiling), decoded by total decoders, never a source of the tree",
           c03.STRUCTS + c04.LED_STRUCT + ["ceos_alos2.volume_directory.structure:volume_directory_record"], bounds="forall admissible structure parameters (unbounded)",
           call="props.c20:ob_spare", wall_timeout=900),
    ]
    flow = ["image.15.n2", "image.11.n2", "leader.utm", "leader.nomp"] if tier == "quick" else ["image.15.n2", "image.15.n3", "image.11.n2", "image.11.n1"] + c04.ALL
    for o in plumb_obligations("C20", flow, c03.IMG_FUNCS + c04.LED_FUNCS, to, "sentinel flow: for ALL integer values (-1 = blank included) of every field that reaches the tree, the "
                               "value arrives unchanged at its pinned place; no exception, no derived attribute"):
        o.id = o.id.replace(".plumb.", ".flow.")
        obs.append(o)
    obs.append(Ob("C20.e2e", "E", "probe files with every spare/blank/reserved area overwritten by printable garbage (numeric spares: numbers) give the same tree as with blanks; "
                  "probe files with every nullable numeric/text field blank open without exception and show -1 / NaN / ''",
                  c04.LED_FUNCS + c03.IMG_FUNCS, bounds="concrete replay (not the deciding step): leader, both image types, volume directory", call="props.c20:ob_e2e", wall_timeout=600))
    return obs


BLANK_REPRS = {"-1", "nan", "''", "np.float64(nan)", "-1.0", "(nan+nanj)", "nan+nanj", "complex(nan, nan)", "np.complex128(nan+nanj)"}
RANK = {"Bytes": 3, "fmt": 3, "PaddedString": 2, "RawPaddedString": 2, "AsciiFloat": 1, "AsciiInteger": 1}


def _blank_like(new, old):
    """repr of a tree value after blanking vs before: a blank marker, or a complex number whose halves are each NaN or unchanged"""
    if new in BLANK_REPRS:
        return True
    try:
        a, b = complex(new.strip("()")), complex(old.strip("()"))
    except ValueError:
        return False
    if "j" not in new:
        return False
    return (a.real != a.real or a.real == b.real) and (a.imag != a.imag or a.imag == b.imag)


def is_spare(path):
    return bool(SPARE_RE.match(str(path[-1])))


def ob_spare(tier):
    from vlib import layout
    from vlib import layoutspec as LS
    from vlib import plumbspec as PS
    from vlib.smt import Session

    S = Session()
    trees = PS.load()
    sources = set()
    for name, e in trees.items():
        unused = set(e["unused"])
        for k in e["tokens"]:
            if k not in unused:
                sources.add(tuple(p for p in k.split(".") if p != "@0" and not p.isdigit()))
    literal = []
    n_spare = 0
    pinned_kinds = {}
    for name, e in LS.load().items():
        for lf_ in e["leaves"]:
            if lf_["kind"]:
                pinned_kinds.setdefault((name, tuple(lf_["path"])), set()).add(lf_["kind"][-1][0])
    for name in LS.registry():
        it, end, dom = LS.live(name)
        assumptions = list(it.constraints) + list(dom)
        S.feasible(f"{name}:admissible", assumptions, show=[])
        # (i) tiling: consecutive fields are adjacent and non-overlapping, the record is covered exactly
        if name != "trailer_file_descriptor":
            # line records: the fields tile the prefix; the sample area behind it is addressed by Tell/Seek and is not a field
            stop = {"signal_data_record": 544, "processed_data_record": 192}.get(name, end)
            S.holds(f"{name}:tiles", assumptions, layout.tiling_claim(it, 0, stop), show=[])
        for lf in it.leaves:
            if not is_spare(lf.path):
                continue
            n_spare += 1
            kinds = [k[0] for k in lf.kind]
            # (ii) total decoders on the declared character class
            if not (kinds[-1:] == ["PaddedString"] or kinds[-1:] == ["Bytes"] or kinds[-1:] == ["AsciiFloat"] or kinds[-1:] == ["AsciiInteger"] or kinds[-1:] == ["fmt"]):
                literal.append({"what": "spare area decoded by an unexpected adapter", "field": lf.name, "kind": kinds})
            # the live decoder accepts at least the character class the documented layout declares for the area:
            # any bytes (Bytes / binary formats) > ASCII text (PaddedString) > numbers (AsciiFloat / AsciiInteger)
            pk = pinned_kinds.get((name, tuple(str(p) for p in lf.path)))
            if pk and kinds and RANK.get(kinds[-1], 0) < min(RANK.get(k, 0) for k in pk):
                literal.append({"what": "spare area decoded by an adapter that rejects part of its declared character class", "field": lf.name, "live": kinds[-1], "pinned": sorted(pk)})
            # (iii) never a source of the tree
            key = tuple(str(p) for p in lf.path if str(p) != "*" and not str(p).isdigit())
            if key in sources:
                literal.append({"what": "spare area reaches the tree", "field": lf.name})
    # (iv) the PINNED spare areas (byte ranges of the documented layout) are not read by any live value field (confirmed by the garbage replay)
    spec = LS.load()
    n_pairs = 0
    for name in LS.registry():
        it, end, dom = LS.live(name)
        assumptions = list(it.constraints) + list(dom)
        pinned = []
        for e in spec[name]["leaves"]:
            if not is_spare(e["path"]):
                continue
            ren = {i[0]: i[0] + "__p" for i in e.get("idx", [])}

            def term(lin_):
                return LS.build(lin_["const"], {ren.get(k, k): v for k, v in lin_["coeffs"].items()})

            cons = []
            for iname, cnt, _ in e.get("idx", []):
                cons += [z3.Int(ren[iname]) >= 0, z3.Int(ren[iname]) < term(cnt)]
            pinned.append((".".join(e["path"]), term(e["off"]), term(e["width"]), cons))
        overlaps = []
        for lf in it.leaves:
            if is_spare(lf.path):
                continue
            lo = lf.off if z3.is_expr(lf.off) else z3.IntVal(lf.off)
            lw = lf.width if z3.is_expr(lf.width) else z3.IntVal(lf.width)
            lcons = [c for idx, count, size in lf.idx for c in (idx >= 0, idx < count)]
            for pname, po, pw, pcons in pinned:
                ov = z3.simplify(z3.And(lw > 0, pw > 0, lo < po + pw, po < lo + lw))
                n_pairs += 1
                if z3.is_false(ov):
                    continue
                overlaps.append((lf.name, pname, z3.And(ov, *lcons, *pcons)))
        if overlaps:
            ok = S.holds(f"{name}:no value field reads a pinned spare area ({len(overlaps)} candidate pairs)", assumptions, z3.Not(z3.Or(*[o[2] for o in overlaps])), show=[])
            if ok is False:
                for lname, pname, ov in overlaps:
                    if S.exists(f"{name}:{lname} overlaps {pname}", assumptions + [ov], show=[]):
                        literal.append({"what": "a value field reads bytes of a spare area of the documented layout", "field": lname, "spare": pname})
                        break
    res = S.result(spare_fields=n_spare, spare_value_pairs=n_pairs)
    if literal:
        res["verdict"] = "violated" if res["verdict"] != "inconclusive" else res["verdict"]
        res["cex"] = list(res.get("cex", [])) + literal[:6]
    if res["verdict"] == "violated":
        rep = _garbage_replay()
        res["cex"] = {"model": res["cex"], "replay": rep}
        if not rep["reproduced"]:
            res.update(verdict="inconclusive", reason="spare-area counterexample did not reproduce on probe files")
        res["finding_key"] = "C20.spare:" + ",".join(rep.get("families", []))
    return res


def _garbage_replay():
    r = ob_e2e("quick")
    return {"reproduced": r["verdict"] == "violated", "families": [c.get("family", "?") for c in r.get("cex", [])], "detail": r.get("cex", [])[:3]}


def _probe_tree(family, raw_by_name):
    """real reader on probe bytes -> flattened tree (as repr strings)"""
    import io

    from vlib import tokens as T

    if family == "leader":
        from ceos_alos2.sar_leader.io import open_sar_leader

        g = open_sar_leader({"LED": raw_by_name}, "LED")
    elif family == "volume":
        from ceos_alos2.volume_directory.io import open_volume_directory

        g = open_volume_directory({"VOL": raw_by_name}, "VOL")
    else:
        from ceos_alos2.hierarchy import Group
        from ceos_alos2.sar_image.io import read_metadata
        from ceos_alos2.sar_image.metadata import transform_metadata

        header, lines = read_metadata(io.BytesIO(raw_by_name), 5)
        group, am = transform_metadata(header, lines)
        g = Group("/", None, {"image": group}, attrs=dict(am))
    return [(T.loc_key(loc), repr(v)) for loc, v in T.flatten(g)]


def _image_probe(level, mutate=None):
    from vlib import layoutspec as LS
    from vlib import specwriter as W

    rec = "signal_data_record" if level == "11" else "processed_data_record"
    H = 544 if level == "11" else 192
    L = H + 2 * (8 if level == "11" else 2)
    spec = LS.load()
    fd, _ = W.write("image_file_descriptor")
    fd = bytearray(fd)

    def put(buf, struct_name, path, text, params=None, just="r"):
        for pth, off, w, kind in W.expand(spec[struct_name], params or {}):
            if list(pth) == list(path):
                t = str(text)
                buf[off:off + w] = (t.rjust(w) if just == "r" else t.ljust(w)).encode()[:w]
                return
        raise KeyError(path)

    put(fd, "image_file_descriptor", ["number_of_sar_data_records"], 2)
    put(fd, "image_file_descriptor", ["sar_data_record_length"], L)
    put(fd, "image_file_descriptor", ["sar_related_data_in_the_record", "number_of_lines_per_dataset"], 2)
    put(fd, "image_file_descriptor", ["sar_related_data_in_the_record", "number_of_data_groups_per_line"], 2)
    put(fd, "image_file_descriptor", ["prefix_suffix_data_locators", "sar_data_format_type_code"], "C*8" if level == "11" else "IU2", just="l")
    if mutate:
        mutate("image_file_descriptor", fd, {})
    body = b""
    for i in range(2):
        r, _ = W.write(rec, params={"L": L})
        r = bytearray(r)
        r[5] = 10 if level == "11" else 11
        if mutate:
            mutate(rec, r, {"L": L})
        body += bytes(r)
    return bytes(fd) + body


def ob_e2e(tier):
    from vlib import layoutspec as LS
    from vlib import specwriter as W

    spec = LS.load()
    bad = []
    runs = 0

    def garbage(struct_name, buf, params):
        k = 0
        for pth, off, w, kind in W.expand(spec[struct_name], params):
            if w <= 0 or not is_spare(pth):
                continue
            last = kind[-1][0]
            k += 1
            if last == "PaddedString":
                fill = ("~!@#$%^&*()_+{}|:<>?AZaz09" * (w // 20 + 1))[k % 7:][:w]
            elif last == "AsciiFloat":
                fill = ("%d.5" % (k * 37 % 1000)).rjust(w)[:w]
            elif last == "AsciiInteger":
                fill = ("%d" % (k * 41 % 1000)).rjust(w)[-w:]
            elif last == "Bytes":
                buf[off:off + w] = bytes((0x7B + k * 7 + j * 37) % 256 for j in range(w))  # any bytes: NUL, ASCII and >= 0x80
                continue
            else:
                continue
            buf[off:off + w] = fill.encode()

    for family, struct_name in (("leader", "sar_leader"), ("volume", "volume_directory")):
        params = W.PARAMS[struct_name]
        raw, _ = W.write(struct_name)
        dirty = bytearray(raw)
        garbage(struct_name, dirty, params)
        runs += 1
        try:
            a, b = _probe_tree(family, raw), _probe_tree(family, bytes(dirty))
            if a != b:
                bad.append({"family": family, "what": "tree changes when spare areas are overwritten", "first": [x for x in zip(a, b) if x[0] != x[1]][:2]})
        except Exception as e:  # noqa: BLE001
            bad.append({"family": family, "what": f"garbage in spare areas raised {type(e).__name__}: {str(e)[:150]}"})
    for level in ("15", "11"):
        runs += 1
        try:
            a = _probe_tree("image", _image_probe(level))
            b = _probe_tree("image", _image_probe(level, mutate=garbage))
            if a != b:
                bad.append({"family": "image." + level, "what": "tree changes when spare areas are overwritten", "first": [x for x in zip(a, b) if x[0] != x[1]][:2]})
        except Exception as e:  # noqa: BLE001
            bad.append({"family": "image." + level, "what": f"garbage in spare areas raised {type(e).__name__}: {str(e)[:150]}"})
    # blank nullable fields: leaders whose numeric/text fields are blank - all of them, every even one, every odd one (neighbouring
    # fields, e.g. the two halves of a complex number, then differ) - structure-driving fields, codes and date-times kept
    for pattern, designator in [(p_, d_) for d_ in ("UTM-PROJECTION", "UPS-PROJECTION", "LCC-PROJECTION", "MER-PROJECTION") for p_ in ("all", "even", "odd")]:
      runs += 1
      try:
        raw, expected = W.write("sar_leader")
        params = W.PARAMS["sar_leader"]
        # the projection sections that reach the tree depend on the designator (a required code column): every listed value is probed
        raw = bytearray(raw)
        for pth, off, w, kind in W.expand(spec["sar_leader"], params):
            if pth[-1] == "map_projection_designator":
                raw[off:off + w] = designator.ljust(w).encode()
        raw = bytes(raw)
        blank = bytearray(raw)
        driving = set(spec["sar_leader"]["params"])
        keep_names = set(W.TEXTS) | set(W.SMALL)
        blanked = []
        idx = 0
        for pth, off, w, kind in W.expand(spec["sar_leader"], params):
            names = [k[0] for k in kind]
            if w <= 0 or ".".join(pth) in driving or pth[-1] in keep_names or "Enum" in names or names[-1] in ("fmt", "Bytes"):
                continue
            if pth[0] == "file_descriptor" or pth[1:2] == ("preamble",) or "preamble" in pth:
                continue
            idx += 1
            if (pattern == "even" and idx % 2) or (pattern == "odd" and not idx % 2):
                continue
            blank[off:off + w] = b" " * w
            blanked.append((pth, names[-1]))
        from ceos_alos2.sar_leader.io import parse_data

        doc = parse_data(bytes(blank))
        wrong = []
        counts = {}
        for pth, off, w, kind in W.expand(spec["sar_leader"], params):
            counts[pth] = counts.get(pth, 0) + 1
        for pth, last in blanked:
            if counts.get(pth, 0) != 1:
                continue  # a struct that uses one name twice (`blanks`) keeps only the last occurrence after parsing
            v = W.lookup(doc, pth)
            okv = (v == -1) if last == "AsciiInteger" else ((v != v) if last == "AsciiFloat" else (v == ""))
            if not okv:
                wrong.append({"field": ".".join(pth), "value": repr(v)})
        if wrong:
            bad.append({"family": "leader", "what": f"blank field did not surface as -1 / NaN / '' (pattern {pattern}, {designator})", "first": wrong[:3]})
        # the transformers accept the blanked document and build the SAME tree shape: every location (group, variable element, attribute)
        # of the filled leader exists - a blank is a value (-1 / NaN / ''), it never removes an element or adds one
        tree_blank = _probe_tree("leader", bytes(blank))
        tree_full = _probe_tree("leader", bytes(raw))
        locs_blank = [k for k, _ in tree_blank]
        locs_full = [k for k, _ in tree_full]
        # a location whose value differs from the filled leader's shows a blank marker - never another field's value or a derived text
        full = {str(k): v for k, v in tree_full}
        fabricated = [(str(k), v) for k, v in tree_blank if str(k) in full and v != full[str(k)] and not _blank_like(v, full[str(k)])]
        if fabricated:
            bad.append({"family": "leader", "what": f"a blanked field surfaces as something else than -1 / NaN / '' (pattern {pattern}, {designator})", "first": fabricated[:3]})
        if sorted(map(str, locs_blank)) != sorted(map(str, locs_full)):
            missing = [k for k in locs_full if k not in set(locs_blank)][:3]
            extra = [k for k in locs_blank if k not in set(locs_full)][:3]
            bad.append({"family": "leader", "what": f"blank fields (pattern {pattern}, {designator}) change the shape of the tree", "missing": missing, "extra": extra,
                        "locations": (len(locs_full), len(locs_blank))})
      except Exception as e:  # noqa: BLE001
        bad.append({"family": "leader", "what": f"leader with blank fields (pattern {pattern}, {designator}) raised {type(e).__name__}: {str(e)[:150]}"})
    res = {"verdict": "violated" if bad else "discharged", "queries": runs, "replays": runs}
    if bad:
        res["cex"] = bad[:4]
        res["finding_key"] = "C20.e2e:" + ",".join(sorted({b["family"] for b in bad}))
    return res


validate_stubs = c03.validate_stubs
