"""shared pieces for the plumbing obligations (C03, C04, C16, C20): generated harnesses, concrete order twin, end-to-end probe"""
import os

from vlib.core import ROOT, Ob


def plumb_obligations(prefix, variants, functions, timeout, statement):
    """one CrossHair obligation per variant; the harness module is regenerated from the pinned table on every run"""
    from vlib import plumbspec as PS

    spec = PS.load()
    obs = []
    for name in variants:
        n = len(PS.used_tokens(spec[name]))
        rel = os.path.join("build", f"plumb_{name.replace('.', '_')}.py")
        PS.write_harness(name, n, os.path.join(ROOT, rel))
        obs.append(Ob(f"{prefix}.plumb.{name}", "X", statement, functions,
                      bounds=f"forall values of the {n} numeric source fields that reach the tree (unbounded ints standing for any number); structure of variant {name} "
                             f"fixed; the {len(spec[name]['unused'])} consumed/ignored numeric fields and all texts concrete",
                      outside="order of members/attributes inside the symbolic run (asserted by the concrete twin); float-specific behaviour of leaf values",
                      harness=rel, func="plumb_ok", timeout=timeout))
    return obs


def ob_order(tier, variants):
    """concrete twin of the plumbing obligations: unique tokens, ORDER of members / attributes / coordinates asserted"""
    from vlib import plumbspec as PS

    spec = PS.load()
    bad = []
    for name in variants:
        used = PS.used_tokens(spec[name])
        for base in (1000, 50000):
            ok, why = PS.check(name, PS.fill(name, [base + 7 * i for i in range(len(used))], spec[name]), spec, ordered=True)
            if not ok:
                bad.append({"variant": name, "why": [{k: (repr(v)[:120]) for k, v in w.items()} for w in why[:3]]})
                break
    res = {"verdict": "violated" if bad else "discharged", "queries": 2 * len(variants), "replays": 2 * len(variants)}
    if bad:
        res["cex"] = bad[:3]
        res["finding_key"] = "order:" + ",".join(b["variant"] for b in bad)
    return res


def ob_e2e(tier, families):
    """probe bytes written from the pinned layout -> real parser -> real transformers -> tree, compared with the pinned tree"""
    from vlib import specwriter as W

    bad = []
    for fam in families:
        try:
            b = W.end_to_end(fam)
        except Exception as e:  # noqa: BLE001
            b = [{"family": fam, "error": f"{type(e).__name__}: {str(e)[:200]}"}]
        if b:
            bad.append({"family": fam, "mismatches": [{k: repr(v)[:100] for k, v in x.items()} for x in b[:4]]})
    res = {"verdict": "violated" if bad else "discharged", "queries": len(families), "replays": len(families)}
    if bad:
        res["cex"] = bad[:3]
        res["finding_key"] = "e2e:" + ",".join(b["family"] for b in bad)
    return res


def explain_hook(res):
    return res
