"""witness replays (engine E) for the properties whose deciding obligations are kernel-level: concrete products through open_alos2.
They are not the deciding step; a failing replay is a reproduced violation of the property itself."""
import numpy as np


def _res(runs, key):
    bad = [r for r in runs if r.get("reproduced")]
    res = {"verdict": "violated" if bad else "discharged", "queries": len(runs), "replays": len(runs)}
    if bad:
        res["cex"] = bad[:3]
        res["finding_key"] = key + ":" + ";".join(str(b.get("detail"))[:80] for b in bad[:2])
    return res


def ob_pixels(tier):
    from vlib import api

    runs = []
    geos = [(1, 4), (4, 1), (5, 3)] if tier == "quick" else [(1, 1), (1, 6), (6, 1), (5, 3), (8, 2), (3, 7)]
    for level in ("1.5", "1.1"):
        for (n, p) in geos:
            for rpc in sorted({1, max(n - 1, 1), n, n + 1, 1024}):
                for protocol in (("file", "memory") if (n, p) == geos[-1] or tier != "quick" else ("file",)):
                    runs.append(api.pixels(level, n, p, rpc, protocol, seed=n * 7 + p))
    runs.append(api.pixels("1.1", 3, 2, 2, "fileurl"))
    runs.append(api.pixels("1.5", 4, 3, 3, "rawio"))  # custom filesystem handing out plain binary file objects
    runs.append(api.pixels("1.1", 3, 2, 10**12, "file"))  # a request size far beyond the file
    # every image of a multi-scan product holds its own pixels, also when the default options find an index written earlier
    runs.append(api.assembly("1.1", pols=("HH", "HV"), scans=("F1", "F2", "F3"), use_cache_cycle=True, pid="WWDR1.1__D"))
    runs.append(api.assembly("1.5", pols=("HH", "HV"), use_cache_cycle=True))
    # a product on a non-local filesystem whose index sits next to the image, default options; a replaced image with a stale index
    r = api.cache_transparency(protocol="memory", location="adjacent", level="1.5")
    runs.append(dict(r, detail=r.get("diffs") or r.get("error")))
    runs.append(api.stale_cache("1.5"))
    # elements fetched through list / point-wise selections are the same samples
    runs.append(api.indexing_kinds("1.5", rpc=2))
    runs.append(api.indexing_kinds("1.1", rpc=3, n=7, m=3))
    return _res(runs, "C01.e2e")


def ob_rpc(tier):
    from vlib import api

    pairs = [(1, 7), (2, 5), (5, 6), (3, 1000000)] if tier == "quick" else [(1, 2), (1, 5), (2, 3), (4, 5), (5, 6), (6, 1024), (3, 10**9), (1, 10**6)]
    runs = [api.rpc_pair(level, a, b) for level in ("1.5", "1.1") for a, b in pairs]
    runs += [api.rpc_pair(level, a, b, cached=True) for level in ("1.5", "1.1") for a, b in pairs[:3]]  # the same through an index cache
    return _res(runs, "C06.e2e")


def ob_io(tier):
    from vlib import api

    cases = [dict(rpc=3, rows=slice(2, 6)), dict(rpc=1, rows=slice(0, 7, 3)), dict(rpc=10, rows=[0, 6]), dict(rpc=7, rows=slice(6, 7)), dict(rpc=2, rows=slice(3, 3)),
             dict(rpc=4, rows=slice(None, None, -1))]
    return _res([api.io_log(level, **c) for level in ("1.5", "1.1") for c in cases], "C11.e2e")


def ob_times(tier):
    from vlib import api

    cases = [(2020, 366, 86399999), (2016, 60, 0), (2019, 1, 0), (2023, 59, 43200500), (2049, 365, 86399999)]
    # files written from the pinned layout first: they do not depend on the live structs being able to build a product
    stamps = api.pinned_leader_times()
    if not stamps["reproduced"]:
        stamps = api.line_stamps()
    if stamps["reproduced"]:
        return {"verdict": "violated", "queries": 2, "replays": 2, "cex": stamps,
                "finding_key": "C17.e2e.stamps:" + ",".join(sorted(stamps["detail"]))[:200]}
    runs = [api.same_instant(*c) for c in cases]
    bad = [r for r in runs if r["reproduced"]]
    res = {"verdict": "violated" if bad else "discharged", "queries": len(runs), "replays": len(runs)}
    if bad:
        res["cex"] = bad[:3]
        # the only deviation is the attitude point, exactly one day late, for every instant: that is the listed finding F10
        only_att = all(set(r["detail"]) == {"attitude point"} and
                       (np.datetime64(r["detail"]["attitude point"]) - np.datetime64(r["instant"])) == np.timedelta64(86400, "s") for r in bad)
        res["finding_key"] = "C17.att:offset=86400000000000ns,86400000000000ns" if only_att and len(bad) == len(runs) else \
            "C17.e2e:" + ";".join(f"{k}={v}" for r in bad[:2] for k, v in r["detail"].items())[:200]
    return res


def ob_failstop(tier):
    from vlib import api

    return _res([api.fail_stop("1.5"), api.fail_stop("1.1", n=3, p=2)], "C18.e2e")


def ob_framing(tier):
    from vlib import api

    cases = [dict(), dict(n_att=1, n_ch=1, with_mp=False), dict(n_att=136, n_ch=16, fac_len=(66, 66, 300, 5000)), dict(n_att=1, n_ch=9, att_len=136), dict(n_att=5, n_ch=8, att_len=1000),
             dict(n_att=2, n_ch=12, with_mp=False, fac_len=(66, 1000, 67, 70))]
    if tier == "thorough":
        cases += [dict(n_att=a, n_ch=c, with_mp=bool((a + c) % 2)) for a in (1, 7, 50, 136) for c in range(1, 17)]
    return _res([api.framing(**c) for c in cases], "C05.e2e")
