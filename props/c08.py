"""C08 - cache codec exactness (DESIGN 5/C08)."""
from vlib.core import Ob

LEVEL = "other"
EXPLANATION = (
    "The real encoders/decoders (encode_hierarchy, encode_group, encode_variable, encode_array, encode_datetime, encode_timedelta, "
    "preprocess | postprocess, decode_hierarchy, decode_group, decode_variable, decode_array, decode_datetime) are executed by "
    "CrossHair/z3 with numpy replaced by an integer model (vlib.npshim: int64 wrap-around, NaT propagation, unit table, dtype "
    "inference, shape bookkeeping) and json by the structural contract (vlib.jsonc), so element values, reference instants and "
    "attribute leaves stay symbolic. Decided for all values: datetime64/timedelta64 arrays of every unit and rank 0..2 incl. NaT "
    "come back bit-identical with the same unit (the reference-offset arithmetic is exact on wrapping int64); int/uint/bool arrays "
    "and plain lists come back with the same values, rank and kind without passing through floats; tuples stay tuples and lists "
    "lists at every nesting depth of variable and group attributes; group paths, urls, member order, dims survive for nested "
    "hierarchies. Floats (incl. NaN, +-inf, -0.0) and non-ASCII strings are identities of the json/numpy element conversion "
    "(trusted) and are run as enumerated concrete values through the same route."
)
ASSUMPTIONS = [
    "numpy model (vlib.npshim) validated against the real numpy THROUGH the real codec on 43 concrete arrays each run (all units, ranks 0-2, NaT, int64 extremes)",
    "json contract (vlib.jsonc) validated against the real json module each run",
    "time values |x| < 2**62 (or NaT): outside, x - reference can wrap onto the NaT bit pattern - e.g. instants more than 292 years apart at ns resolution; stated, not claimed",
    "float repr round-trip through json and numpy element conversion (tolist / np.array) are trusted; str(datetime64) re-parses to the same instant (validated on boundary instants)",
    "array shapes up to 2x2 / 4 elements; attribute trees up to depth 4",
]
TRUSTED = ["z3 5.1", "CrossHair 0.0.110", "vlib.npshim", "vlib.jsonc"]

ENCF = ["ceos_alos2.sar_image.caching.encoders:encode_array", "ceos_alos2.sar_image.caching.encoders:encode_datetime",
        "ceos_alos2.sar_image.caching.encoders:encode_timedelta", "ceos_alos2.sar_image.caching.encoders:preprocess",
        "ceos_alos2.sar_image.caching.decoders:decode_array", "ceos_alos2.sar_image.caching.decoders:decode_datetime",
        "ceos_alos2.sar_image.caching.decoders:postprocess"]
HIER = ENCF + ["ceos_alos2.sar_image.caching.encoders:encode_hierarchy", "ceos_alos2.sar_image.caching.encoders:encode_group",
               "ceos_alos2.sar_image.caching.encoders:encode_variable", "ceos_alos2.sar_image.caching.decoders:decode_hierarchy",
               "ceos_alos2.sar_image.caching.decoders:decode_group", "ceos_alos2.sar_image.caching.decoders:decode_variable",
               "ceos_alos2.hierarchy:Group.__post_init__"]


def obligations(tier):
    to = 300 if tier == "quick" else 1200
    shapes = [[], [1], [3], [2, 2]] if tier == "quick" else [[], [1], [2], [3], [4], [2, 2], [1, 3], [4, 1], [2, 1]]
    obs = []
    for kind, name in (("M", "datetime"), ("m", "timedelta")):
        obs.append(Ob(f"C08.time.{name}", "X", f"{name}64 arrays: decode(json(encode(a))) is the same array - dtype/unit, shape, every element incl. NaT; the document names the unit",
                      ENCF, bounds=f"forall 4 int64 elements |x|<2**62 or NaT (any position), units ns/us/ms/s/D, shapes {shapes}",
                      outside="|x| >= 2**62: x - reference may wrap onto NaT", harness="harness/h_codec.py", func="time_ok",
                      params={"kind": kind, "shapes": shapes}, timeout=to))
    for tc in ("IU2", "C*8"):
        obs.append(Ob(f"C08.array.{tc.replace('*', '')}", "X", "image array entry: url, shape (as written in the header - independent of the number of byte ranges), dtype, byte ranges "
                      "(tuples), type code survive encode_array -> preprocess -> json -> postprocess -> decode_array",
                      ["ceos_alos2.sar_image.caching.encoders:encode_array", "ceos_alos2.sar_image.caching.encoders:preprocess",
                       "ceos_alos2.sar_image.caching.decoders:decode_array", "ceos_alos2.sar_image.caching.decoders:postprocess"],
                      bounds="forall lines, pixels >= 1 (also lines != number of byte ranges), 0<=s0<=e0<=s1<=e1, root strings |s|<=3, 3 protocols; rpc {1,2,3} x writer rpc {1,5}",
                      harness="harness/h_cache.py", func="array_codec_ok", params={"rpcs": [1, 2, 3], "rpcs_w": [1, 5], "type_code": tc,
                                                                                   "dtype": "uint16" if tc == "IU2" else "complex64"}, timeout=to))
    obs += [
        Ob("C08.ints", "X", "int64/int32/uint16/uint32/bool arrays and plain (nested) lists: same values, rank and kind; no float rounding at the int64 extremes; empty list",
           ENCF, bounds="forall int64 x0,x1, uint16 x2, uint32 x3, bools; ranks 0..2", harness="harness/h_codec.py", func="ints_ok", timeout=to),
        Ob("C08.floats_strs", "X", "float64 arrays incl. NaN/+-inf/-0.0/denormal-range and str arrays incl. non-ASCII, quotes, padding: identical after the round trip",
           ENCF, bounds="enumerated 9 floats x 6 strings (symbolic index)", outside="arbitrary float bit patterns (json/numpy conversion trusted)",
           harness="harness/h_codec.py", func="floats_strs_ok", timeout=to),
        Ob("C08.tuples", "X", "attribute trees: tuples stay tuples, lists lists, bools bools, at every nesting depth, as group attrs and variable attrs",
           HIER, bounds="7 tree shapes (depth<=4) with symbolic int/bool leaves", outside="a user dict that itself has the key '__type__' (reserved by the format)",
           harness="harness/h_codec.py", func="tuples_ok", timeout=to),
        Ob("C08.hierarchy", "X", "groups: path, url (None or not), member order, nested groups (empty or not), dims (str/list/()), 0-d..2-d variables, time variables, attrs",
           HIER, bounds="forall int64 tokens t0..t3, structure flags nested/empty/with_time/url_none", harness="harness/h_codec.py", func="hierarchy_ok", timeout=to),
        Ob("C08.empty", "E", "arrays without elements keep dtype and shape (rank 0..2, sides 0..3): the only inputs whose round trip does not depend on any element value, "
           "hence a finite domain enumerated completely through the real encoder, json and decoder", ENCF,
           bounds="all shapes of rank <= 2 with sides in {0, 1, 3} containing a zero-length side x 7 dtypes (b, i, u, f, M, m, U)", call="props.c08:ob_empty"),
        Ob("C08.e2e", "E", "witness replay with the real numpy and json: every variable/attribute of synthesised level 1.1 and 1.5 image groups with extreme field values "
           "survives encode -> text -> decode in a fresh interpreter process (self-contained document)",
           ["ceos_alos2.sar_image.caching:encode", "ceos_alos2.sar_image.caching:decode"], bounds="concrete replay (not the deciding step)", call="props.c08:ob_e2e", wall_timeout=600),
    ]
    return obs


def ob_empty(tier):
    import json

    import numpy as np

    from ceos_alos2.sar_image.caching import decoders as DEC
    from ceos_alos2.sar_image.caching import encoders as ENC

    shapes = [(0,)] + [(a, b) for a in (0, 1, 3) for b in (0, 1, 3) if a == 0 or b == 0]
    dtypes = ["bool", "int64", "uint16", "float64", "datetime64[ns]", "timedelta64[ms]", "<U3"]
    bad, n = [], 0
    for shape in shapes:
        for dt in dtypes:
            a = np.empty(shape, dtype=dt)
            n += 1
            try:
                enc = ENC.encode_array(a)
                back = DEC.decode_array(json.loads(json.dumps(ENC.preprocess(enc)), object_hook=DEC.postprocess), records_per_chunk=1)
                got = (tuple(back.shape), str(back.dtype))
            except Exception as e:  # noqa: BLE001
                got = f"{type(e).__name__}: {str(e)[:80]}"
            want = (shape, str(a.dtype) if a.dtype.kind != "U" else got[1] if isinstance(got, tuple) and str(got[1]).startswith("<U") else str(a.dtype))
            if got != want:
                bad.append({"shape": list(shape), "dtype": dt, "decoded": got})
    res = {"verdict": "violated" if bad else "discharged", "queries": n, "replays": n}
    if bad:
        res["cex"] = bad[:6]
        # finding key: the set of shape classes that fail (leading zero-length side with further sides / anything else)
        classes = sorted({"shape(0,n)" if (len(b["shape"]) == 2 and b["shape"][0] == 0 and isinstance(b["decoded"], (tuple, list)) and tuple(b["decoded"][0]) == (0,))
                          else f"shape{tuple(b['shape'])}:{b['dtype']}" for b in bad})
        res["finding_key"] = "C08.empty:" + ",".join(classes)[:200]
    return res


def ob_e2e(tier):
    """real reader -> real encode -> file -> fresh process decode -> compare with the group (dtype kinds, shapes, values, attrs)"""
    import os
    import subprocess
    import sys
    import tempfile

    import fsspec
    import numpy as np

    from ceos_alos2.sar_image import caching, open_image
    from vlib import synth

    bad, runs = [], 0
    for level in ("1.5", "1.1"):
        root = tempfile.mkdtemp(prefix="vc08_")
        try:
            line = {"sensor_acquisition_date": {"year": 2020, "day_of_year": 366, "milliseconds": 86399999}}
            datas = synth.product(synth.dir_writer(root), level, n=3, p=2, pols=("HH",), image_kw={"line": line})
            name = next(iter(datas))
            g = open_image(fsspec.get_mapper(root), name, use_cache=False, records_per_chunk=2)
            doc = caching.encode(g)
            path = os.path.join(root, "doc.json")
            __import__("pathlib").Path(path).write_text(doc)
            code = (
                "import sys, json, numpy as np\n"
                "from ceos_alos2.sar_image import caching\n"
                f"g = caching.decode(open({path!r}).read(), records_per_chunk=5)\n"
                "out = {'path': g.path, 'url': g.url, 'names': list(g.data), 'attrs': repr(g.attrs)}\n"
                "for k, v in g.data.items():\n"
                "    if k == 'data':\n"
                "        a = v.data; out[k] = [list(map(list, a.byte_ranges)), list(a.shape), str(a.dtype), a.type_code, a.url, a.records_per_chunk]\n"
                "    else:\n"
                "        x = np.asarray(v.data); out[k] = [str(x.dtype), list(x.shape), repr(x.tolist()), list(v.dims), repr(v.attrs)]\n"
                "print('@@' + json.dumps(out))\n"
            )
            line_ = None
            for locale_env in ({}, {"LC_ALL": "C", "LANG": "C", "PYTHONCOERCECLOCALE": "0", "PYTHONUTF8": "0"}):
                env = dict(os.environ, **locale_env)
                code2 = code.replace(f"open({path!r}).read()", f"__import__('pathlib').Path({path!r}).read_text()")
                p = subprocess.run([sys.executable, "-B", "-c", code2], capture_output=True, text=True, env=env, timeout=120)
                runs += 1
                line_ = [ln for ln in p.stdout.splitlines() if ln.startswith("@@")]
                if not line_:
                    bad.append({"level": level, "locale": locale_env.get("LC_ALL", "default"), "error": p.stderr[-300:]})
                    break
            if not line_:
                continue
            import json

            got = json.loads(line_[0][2:])
            want = {"path": g.path, "url": g.url, "names": list(g.data), "attrs": repr(g.attrs)}
            for k, v in g.data.items():
                if k == "data":
                    a = v.data
                    want[k] = [list(map(list, a.byte_ranges)), list(a.shape), str(a.dtype), a.type_code, a.url, 3]
                else:
                    x = np.asarray(v.data)
                    want[k] = [str(x.dtype), list(x.shape), repr(x.tolist()), list(v.dims), repr(v.attrs)]
            diffs = [k for k in want if want[k] != got.get(k)]
            if diffs:
                bad.append({"level": level, "differs": diffs[:6], "want": {k: want[k] for k in diffs[:2]}, "got": {k: got.get(k) for k in diffs[:2]}})
        finally:
            import shutil

            shutil.rmtree(root, ignore_errors=True)
    res = {"verdict": "violated" if bad else "discharged", "queries": runs, "replays": runs}
    if bad:
        res["cex"] = bad[:2]
        res["finding_key"] = "C08.e2e:" + ";".join(b["level"] for b in bad)
    return res


def validate_stubs():
    from props import c07
    from vlib import npshim

    out = npshim.conformance()
    out.update({k: v for k, v in c07.validate_stubs().items() if k.startswith("json") or k.startswith("strict")})
    return out
