"""C17 - all timestamps follow one calendar convention and keep their stored resolution (DESIGN 5/C17)."""
import z3

from vlib.core import Ob

LEVEL = "other"
EXPLANATION = (
    "Reference convention: instant = 1 Jan of the year + (day_of_year-1) days + fraction, computed by an independent days-from-civil "
    "routine. CrossHair/z3 decides on the real decoders, for every year 2014-2049, every day 1-366 and every ms/us of a day: "
    "DatetimeYdms/DatetimeYdus return the convention instant exactly; the attitude time (real transform_time + fix_attitude_time on a "
    "pure-python integer model of the four timedelta64/datetime64 operations) differs from the convention by one constant for all inputs "
    "and that constant must be 0. transform_composite_datetime and normalize_datetime are run with proxy datetime modules: the real "
    "split/join, format string, timedelta keyword and addition are executed, the resulting instant is a z3 term compared with the "
    "convention for all real seconds-of-day / all digit strings of the pinned field layout."
)
ASSUMPTIONS = [
    "numpy timedelta64/datetime64 unit arithmetic = integer arithmetic with the unit table (validated concretely each run)",
    "datetime.strptime parses zero-padded fixed-width fields positionally; timedelta(seconds=x) rounds to microseconds - x is a real number in the encoding, the last-ulp behaviour of the float product inside CPython is outside the claim",
    "years 2014-2049; inputs are valid zero-padded timestamps",
]
TRUSTED = ["z3 5.1", "CrossHair 0.0.110 (int and datetime models)", "numpy/datetime shims in harness/h_time.py and props/c17.py"]


def obligations(tier):
    to = 300 if tier == "quick" else 1200
    return [
        Ob("C17.ydms", "X", "image line time (year, day_of_year, ms) = convention instant, exact to the millisecond", ["ceos_alos2.datatypes:DatetimeYdms._decode"],
           bounds="forall year 2014..2049, doy 1..366, ms 0..86399999", harness="harness/h_time.py", func="ydms_ok", timeout=to),
        Ob("C17.ydus", "X", "microsecond variant = date of the ms stamp + us, exact to the microsecond (callable and constant reference)",
           ["ceos_alos2.datatypes:DatetimeYdus._decode"], bounds="forall us 0..86399999999; 7 enumerated reference date-times (boundary days, non-zero time of day)", outside="symbolic reference dates: CrossHair cannot run datetime.combine on its symbolic date model", harness="harness/h_time.py", func="ydus_ok", timeout=to),
        Ob("C17.ydus.live", "X", "the microsecond adapter inside the live level 1.1 line record uses the date of ITS OWN line: consecutive lines / files with different dates "
           "(midnight crossing, second product) read back right", ["ceos_alos2.datatypes:DatetimeYdus._decode", "ceos_alos2.sar_image.signal_data:signal_data_record"],
           bounds="forall us1, us2; " + ("7 consecutive pairs" if tier == "quick" else "all 49 ordered pairs") + " of 7 reference dates", harness="harness/h_time.py", func="ydus_live_ok",
           params={"all_pairs": tier != "quick"}, timeout=3 * to),
        Ob("C17.att", "X", "attitude point time = convention instant", ["ceos_alos2.sar_leader.attitude:transform_time", "ceos_alos2.sar_leader.metadata:fix_attitude_time"],
           bounds="forall year 2014..2049, doy 1..366, ms", harness="harness/h_time.py", func="att_ok", timeout=to),
        Ob("C17.att.const", "X", "attitude time minus convention is one constant for all inputs, years and both sub-groups",
           ["ceos_alos2.sar_leader.attitude:transform_time", "ceos_alos2.sar_leader.metadata:fix_attitude_time"],
           bounds="forall pairs of (doy, ms), year 2014..2049", harness="harness/h_time.py", func="att_const_ok", timeout=to),
        Ob("C17.pp", "N", "platform-position first point: date text + seconds of day = convention instant of that date + x, rounded to the microsecond",
           ["ceos_alos2.sar_leader.platform_position:transform_composite_datetime"], bounds="forall real x in [0, 86400); dates enumerated (boundary days of 2014-2049)",
           call="props.c17:ob_pp"),
        Ob("C17.fmt", "N", "compact date-time text yyyymmddhhmmss + fraction digits -> ISO 8601 of the same instant (scene centre: ms digits, volume creation: 1/100 s digits)",
           ["ceos_alos2.transformers:normalize_datetime"], bounds="forall digit strings with valid zero-padded fields, 2..3 fraction digits", call="props.c17:ob_fmt"),
        Ob("C17.fields", "L", "every time-bearing field is read from its documented byte positions with its documented width and decoder (a stamp's last digit does not fall "
           "into a neighbouring spare): scene centre, platform-position first point, attitude point time, per-line ms / us stamps, volume creation time",
           ["ceos_alos2.sar_leader.dataset_summary:dataset_summary_record", "ceos_alos2.sar_leader.platform_position:platform_position_record",
            "ceos_alos2.sar_leader.attitude:attitude_record", "ceos_alos2.sar_image.signal_data:signal_data_record",
            "ceos_alos2.sar_image.processed_data:processed_data_record", "ceos_alos2.volume_directory.structure:volume_directory_record"],
           bounds="forall admissible structure parameters (unbounded); 14 fields", call="props.c17:ob_fields"),
        Ob("C17.units", "N", "per-line time variables keep every stored digit: the datetime64 unit the line-metadata transformer stores them in divides one millisecond (ms stamp) / "
           "one microsecond (us stamp), so no value is truncated", ["ceos_alos2.sar_image.metadata:transform_line_metadata", "ceos_alos2.sar_image.metadata:apply_overrides"],
           bounds="forall ms 0..86399999 and us 0..86399999999 under the integer model of numpy's datetime -> datetime64[unit] conversion (floor to the unit; validated against numpy in "
           "validate_stubs); the unit is read off the real transformer's output on every run; counterexamples are replayed through the real transformer", call="props.c17:ob_units"),
        Ob("C17.e2e", "E", "witness replay: one instant (29 Feb, day 366, last millisecond of a day, ...) written into the image line record, the attitude point, the platform-position "
           "first point and the scene-centre field reads back as the same datetime everywhere", ["ceos_alos2.xarray:open_alos2"], bounds="concrete replays (not the deciding step): 5 instants",
           call="props.e2e:ob_times", wall_timeout=600),
    ]


def civil(y, m, d):
    from harness.h_time import _days_from_civil

    return _days_from_civil(y, m, d)


class _Cap(Exception):
    pass


def _quantum(timespec):
    """microseconds resolved by datetime.isoformat(timespec=...)"""
    q = {"auto": 1, "microseconds": 1, "milliseconds": 1000, "seconds": 10**6, "minutes": 60 * 10**6, "hours": 3600 * 10**6}.get(timespec)
    if q is None:
        raise ValueError("Unknown timespec value")
    return q


def _pp_sweep(f):
    """seconds-of-day values at ms / sub-ms resolution on boundary dates through the real function"""
    import datetime as real_dt
    from fractions import Fraction

    bad = []
    xs = [k / 1000.0 for k in range(0, 86400000, 9973)] + [1.001, 2.003, 43200.00025, 86399.999999, 86399.999, 0.0005, 59.9999995, 3600.5, 12.000001]
    for (y, m, d) in ((2020, 2, 29), (2014, 12, 31)):
        for x in xs:
            text = f"{y:4d}{m:4d}{d:4d}"
            us = Fraction(x) * 10**6
            r = int(us)
            frac = us - r
            if frac > Fraction(1, 2) or (frac == Fraction(1, 2) and r % 2):
                r += 1
            want = (real_dt.datetime(y, m, d) + real_dt.timedelta(microseconds=r)).isoformat()
            try:
                got = f({"date": text, "day_of_year": 1, "seconds_of_day": x})
            except Exception as e:  # noqa: BLE001
                got = f"raised {type(e).__name__}"
            if got != want:
                bad.append({"date": text, "seconds_of_day": x, "got": got, "want": want})
                if len(bad) > 5:
                    return bad
    return bad


TIME_FIELDS = {
    "sar_leader": [("dataset_summary", "scene_center_time"), ("platform_position", "datetime_of_first_point", "date"),
                   ("platform_position", "datetime_of_first_point", "day_of_year"), ("platform_position", "datetime_of_first_point", "seconds_of_day"),
                   ("attitude", "data_points", "*", "time", "day_of_year"), ("attitude", "data_points", "*", "time", "millisecond_of_day")],
    "signal_data_record": [("sensor_acquisition_date", "year"), ("sensor_acquisition_date", "day_of_year"), ("sensor_acquisition_date", "milliseconds"),
                           ("sensor_acquisition_date_microseconds",)],
    "processed_data_record": [("sensor_acquisition_date", "year"), ("sensor_acquisition_date", "day_of_year"), ("sensor_acquisition_date", "milliseconds")],
    "volume_directory": [("volume_descriptor", "logical_volume_creation_datetime")],
}


def ob_fields(tier):
    """live offset / width (z3 terms over the structure parameters) and decoder chain of every time-bearing field vs the pinned layout"""
    from vlib import layout
    from vlib import layoutspec as LS
    from vlib.smt import Session

    S = Session()
    spec = LS.load()
    literal = []
    for name, fields in TIME_FIELDS.items():
        it, end, dom = LS.live(name)
        assumptions = list(it.constraints) + list(dom)
        for lf in it.leaves:
            for idx, count, size in lf.idx:
                assumptions += [idx >= 0, idx < count]
        by = {}
        for lf in it.leaves:
            by.setdefault(tuple(str(p) for p in lf.path), lf)
        pinned = {tuple(e["path"]): e for e in reversed(spec[name]["leaves"])}
        for path in fields:
            lf, e = by.get(path), pinned[path]
            if lf is None:
                literal.append({"what": "time field missing in the live layout", "field": name + ":" + ".".join(path)})
                continue
            for what, live_t, pin in (("offset", lf.off, e["off"]), ("width", lf.width, e["width"])):
                live_t = live_t if z3.is_expr(live_t) else z3.IntVal(live_t)
                S.holds(f"{name}:{'.'.join(path)}:{what}", assumptions, live_t == LS.build(pin["const"], pin["coeffs"]), show=[])
            if layout.kind_json(lf.kind) != e["kind"]:
                literal.append({"what": "decoder chain differs", "field": name + ":" + ".".join(path), "live": layout.kind_json(lf.kind), "pinned": e["kind"]})
    res = S.result(fields=sum(len(v) for v in TIME_FIELDS.values()))
    if literal:
        res["verdict"] = "violated" if res["verdict"] != "inconclusive" else res["verdict"]
        res["cex"] = list(res.get("cex", [])) + literal[:6]
    if res["verdict"] == "violated":
        # replay: files written from the pinned layout through the real parsers
        from vlib import api
        from vlib import specwriter as W

        rep = api.pinned_leader_times()
        bad = dict(rep["detail"])
        for name in ("signal_data_record", "processed_data_record", "volume_directory"):
            try:
                wrong = [b for b in W.roundtrip(name) if any(b["field"] == ".".join(p) for p in TIME_FIELDS[name])]
            except Exception as e:  # noqa: BLE001
                wrong = [{"field": name, "error": type(e).__name__}]
            for b in wrong:
                bad[name + ":" + b["field"]] = str(b)[:120]
        res["cex"] = {"model": res["cex"][:6], "replay": bad}
        if not bad:
            res.update(verdict="inconclusive", reason="time-field layout difference did not reproduce on files written from the pinned layout")
        res["finding_key"] = "C17.fields:" + ",".join(sorted(bad))[:200]
    return res


_UNIT_NS = {"s": 10**9, "ms": 10**6, "us": 10**3, "ns": 1, "ps": None, "m": 60 * 10**9, "h": 3600 * 10**9, "D": 86400 * 10**9}


def _line_times(us_values):
    """real transformer on parsed-record dictionaries carrying the two stamps -> {name: (unit, multiple, [ns since epoch])}"""
    import datetime

    import numpy as np

    from ceos_alos2.sar_image.metadata import transform_line_metadata

    day = datetime.datetime(2020, 2, 29)
    recs = [{"sar_image_data_line_number": i + 1, "sensor_acquisition_date": day + datetime.timedelta(milliseconds=u // 1000),
             "sensor_acquisition_date_microseconds": day + datetime.timedelta(microseconds=u)} for i, u in enumerate(us_values)]
    g = transform_line_metadata(recs)
    out = {}
    for name in ("sensor_acquisition_date", "sensor_acquisition_date_microseconds"):
        data = np.asarray(g.variables[name].data)
        if not np.issubdtype(data.dtype, np.datetime64):
            out[name] = (None, 1, [repr(x) for x in data.tolist()])
            continue
        unit, mult = np.datetime_data(data.dtype)
        out[name] = (unit, mult, [int(x) for x in data.astype("datetime64[ns]").astype("int64")])
    return out


def ob_units(tier):
    import numpy as np

    from vlib.smt import Session

    S = Session()
    probe = _line_times([0])
    epoch_day = int(np.datetime64("2020-02-29", "ns").astype("int64"))
    u = z3.Int("us")
    cex = {}
    for name, step_us in (("sensor_acquisition_date", 1000), ("sensor_acquisition_date_microseconds", 1)):
        unit, mult, _ = probe[name]
        if unit is None or _UNIT_NS.get(unit) is None:
            S.failed.append({"label": f"units:{name}:not-a-datetime64-with-a-known-unit", "model": {"unit": repr(unit)}})
            continue
        q = _UNIT_NS[unit] * mult
        stored = u * 1000  # ns since midnight of the value the file stores (a multiple of step_us microseconds)
        # numpy's conversion floors to the unit: the digits survive iff the stored value is a multiple of the unit
        ok = S.holds(f"units:{name}:[{mult}{unit}]", [u >= 0, u < 86400 * 10**6, u % step_us == 0], (epoch_day + stored) % q == 0, show=[u])
        if ok is False:
            cex[name] = int(str(S.failed[-1]["model"]["us"]))
    res = S.result()
    if cex:
        # replay through the real transformer
        bad = {}
        for name, val in cex.items():
            got = _line_times([val])[name][2][0]
            want = epoch_day + (val if name.endswith("microseconds") else val // 1000 * 1000) * 1000
            if got != want:
                bad[name] = {"us": val, "stored_ns": want, "returned_ns": got}
        if bad:
            res.update(verdict="violated", cex=bad, finding_key="C17.units:" + ",".join(sorted(bad)))
        else:
            res.update(verdict="inconclusive", reason="unit counterexample did not reproduce on the real transformer")
    return res


def ob_pp(tier):
    """real transform_composite_datetime with a proxy `dt` module: strptime is the real one (concrete date text), timedelta is symbolic"""
    import datetime as real_dt

    from ceos_alos2.sar_leader import platform_position as PP
    from vlib.smt import Session

    S = Session()
    x = z3.Real("x")

    class TDelta:
        def __init__(self, us):
            self.us = us  # z3 term: microseconds (already rounded)

    def rnd_half_even(v):
        f = z3.ToInt(v)  # floor for v >= 0
        frac = v - z3.ToReal(f)
        return z3.If(frac > z3.RealVal("1/2"), f + 1, z3.If(frac < z3.RealVal("1/2"), f, z3.If(f % 2 == 0, f, f + 1)))

    UNITS = {"days": 86400 * 10**6, "seconds": 10**6, "microseconds": 1, "milliseconds": 1000, "minutes": 60 * 10**6, "hours": 3600 * 10**6, "weeks": 7 * 86400 * 10**6}

    def timedelta(*args, **kw):
        names = ["days", "seconds", "microseconds", "milliseconds", "minutes", "hours", "weeks"]
        kw.update(dict(zip(names, args)))
        total = z3.RealVal(0)
        for k, v in kw.items():
            total = total + (v if z3.is_expr(v) else z3.RealVal(v)) * UNITS[k]
        return TDelta(rnd_half_even(total))

    class DTime:
        def __init__(self, base, us):
            self.base, self.us = base, us

        def __add__(self, td):
            return DTime(self.base, self.us + td.us)

        def isoformat(self, sep="T", timespec="auto"):
            return Iso(self, _quantum(timespec))

    class Iso:
        def __init__(self, d, quantum):
            self.d, self.quantum = d, quantum

    class DT:
        @staticmethod
        def strptime(text, fmt):
            return DTime(real_dt.datetime.strptime(text, fmt), z3.IntVal(0))

    _td = timedelta

    class Shim:
        datetime = DT
        timedelta = staticmethod(_td)

    dates = [(2014, 1, 1), (2016, 2, 29), (2020, 2, 28), (2020, 3, 1), (2020, 12, 31), (2049, 12, 31), (2023, 10, 9)]
    if tier == "thorough":
        dates += [(y, m, d) for y in (2015, 2024, 2048) for m, d in ((1, 1), (2, 28), (6, 30), (12, 31))]
    orig = PP.dt
    n = 0
    try:
        for y, m, d in dates:
            text = f"{y:4d}{m:4d}{d:4d}"
            PP.dt = Shim
            try:
                out = PP.transform_composite_datetime({"date": text, "day_of_year": 1, "seconds_of_day": x})
            finally:
                PP.dt = orig
            if not isinstance(out, Iso):
                return {"verdict": "inconclusive", "reason": f"transform_composite_datetime returned {type(out)} on proxies"}
            base_us = (out.d.base - real_dt.datetime(1970, 1, 1)) // real_dt.timedelta(microseconds=1)
            got = base_us + out.d.us
            if out.quantum != 1:
                got = (got / out.quantum) * out.quantum  # the text printed with a coarser timespec denotes the truncated instant
            want = civil(y, m, d) * 86400 * 10**6 + rnd_half_even(x * 10**6)
            dom = [x >= 0, x < 86400]
            if n == 0:
                S.feasible("pp:feasible", dom + [x == z3.RealVal("3600.5")], show=[x])
            S.holds(f"pp:{y}-{m}-{d}", dom, got == want, show=[x])
            n += 1
    except Exception as e:  # noqa: BLE001
        # the implementation does arithmetic the proxies cannot carry (e.g. int() of the seconds): sweep the real function instead -
        # this can only find violations, it cannot discharge the obligation
        bad = _pp_sweep(PP.transform_composite_datetime)
        if bad:
            return {"verdict": "violated", "cex": {"replay": bad[:4]}, "finding_key": "C17.pp", "queries": 1}
        return {"verdict": "inconclusive", "reason": f"proxy run failed: {type(e).__name__}: {e} (sweep of the real function found no deviation)"}
    res = S.result()
    if res["verdict"] == "violated":
        bad = []
        for f in res["cex"]:
            y, m, d = map(int, f["label"].split(":")[1].split("-"))
            xv = f["model"]["x"]
            xf = float(eval(xv.replace("?", ""))) if "/" in xv else float(xv.replace("?", ""))
            got = PP.transform_composite_datetime({"date": f"{y:4d}{m:4d}{d:4d}", "day_of_year": 1, "seconds_of_day": xf})
            want = (real_dt.datetime(y, m, d) + real_dt.timedelta(microseconds=round(xf * 1e6))).isoformat()
            bad.append({"date": (y, m, d), "x": xf, "got": got, "want": want, "reproduced": got != want})
        res["cex"] = {"model": res["cex"], "replay": bad}
        res["finding_key"] = "C17.pp"
        if not any(b["reproduced"] for b in bad):
            res.update(verdict="inconclusive", reason="counterexample did not reproduce on the real function")
    return res


def _fmt_sweep(f):
    """all seconds x all fractions (hundredths for the volume creation time, milliseconds for the scene centre) on boundary dates"""
    import datetime as real_dt

    bad = []
    for date in ("20200229", "20141231", "20490101"):
        for hh, mm in (("00", "00"), ("23", "59"), ("12", "34")):
            for sec in range(60):
                for nf, top in ((2, 100), (3, 1000)):
                    for frac in range(top):
                        text = f"{date}{hh}{mm}{sec:02d}{frac:0{nf}d}"
                        want = real_dt.datetime(int(date[:4]), int(date[4:6]), int(date[6:]), int(hh), int(mm), sec, frac * 10 ** (6 - nf)).isoformat()
                        try:
                            got = f(text)
                        except Exception as e:  # noqa: BLE001
                            got = f"raised {type(e).__name__}"
                        if got != want:
                            bad.append({"text": text, "got": got, "want": want})
                            if len(bad) > 5:
                                return bad
    return bad


def ob_fmt(tier):
    """normalize_datetime: capture the format string the real function hands to strptime, model strptime positionally, compare with
    the pinned field layout for all digit strings"""
    import datetime as real_dt
    import re

    from ceos_alos2 import transformers as T
    from vlib.smt import Session

    S = Session()
    cap = {}

    class Iso:
        pass

    class Parsed:
        def isoformat(self, sep="T", timespec="auto"):
            cap["iso_args"] = (sep, timespec)
            return Iso()

    class DT:
        @staticmethod
        def strptime(text, fmt):
            cap["text"], cap["fmt"] = text, fmt
            return Parsed()

    class Shim:
        datetime = DT

    sentinel = object()
    orig = T.dt
    T.dt = Shim
    try:
        out = T.normalize_datetime(sentinel)
    except Exception:  # noqa: BLE001 - the implementation inspects the text itself: the proxy encoding does not apply
        out = None
    finally:
        T.dt = orig
    if not isinstance(out, Iso) or cap.get("text") is not sentinel or cap.get("iso_args", (None,))[0] != "T":
        # the proxy encoding does not apply to this implementation: fall back to the exhaustive sweep of the fraction and seconds
        # fields on the real function (finite domains) - it can only find violations, it cannot discharge the obligation
        bad = _fmt_sweep(T.normalize_datetime)
        if bad:
            return {"verdict": "violated", "cex": {"replay": bad[:4]}, "finding_key": "C17.fmt", "queries": 1}
        return {"verdict": "inconclusive", "reason": "normalize_datetime does more than strptime(text, fmt).isoformat(); encoding not applicable (sweep of all seconds x fractions found no deviation)"}
    fmt = cap["fmt"]
    quantum = _quantum(cap["iso_args"][1])
    widths = {"Y": 4, "m": 2, "d": 2, "H": 2, "M": 2, "S": 2}
    toks = re.findall(r"%(.)|(.)", fmt)
    for nfrac, what in ((3, "scene-centre yyyymmddhhmmssttt"), (2, "volume creation yyyymmddhhmmssxx")):
        n = 14 + nfrac
        dg = [z3.Int(f"c{i}") for i in range(n)]
        dom = [z3.And(c >= 0, c <= 9) for c in dg]

        def num(lo, hi):
            v = z3.IntVal(0)
            for c in dg[lo:hi]:
                v = v * 10 + c
            return v

        # pinned layout
        y, mo, d, h, mi, s = num(0, 4), num(4, 6), num(6, 8), num(8, 10), num(10, 12), num(12, 14)
        frac_us = num(14, n) * 10 ** (6 - nfrac)
        valid = [y >= 2014, y <= 2049, mo >= 1, mo <= 12, d >= 1, d <= 28, h <= 23, mi <= 59, s <= 59]
        # model of strptime under the captured format: positional fields
        pos = 0
        fields = {}
        lit_ok = []
        unsupported = None
        for dirv, lit in toks:
            if lit:
                lit_ok.append(z3.BoolVal(False) if not lit.isdigit() else dg[pos] == int(lit))
                pos += 1
            elif dirv == "f":
                w = min(6, n - pos)
                fields["f"] = num(pos, pos + w) * 10 ** (6 - w) if w > 0 else None
                pos += w
            elif dirv in widths:
                fields[dirv] = num(pos, pos + widths[dirv]) if pos + widths[dirv] <= n else None
                pos += widths[dirv]
            else:
                unsupported = dirv
        if unsupported:
            return {"verdict": "inconclusive", "reason": f"strptime directive %{unsupported} not modelled"}
        complete = pos == n and all(fields.get(k) is not None for k in "YmdHMS")
        S.feasible(f"fmt[{nfrac}]:feasible", dom + valid, show=dg)
        if not complete:
            S.failed.append({"label": f"fmt[{nfrac}]:format {fmt!r} does not consume {what}", "model": {}})
            continue
        us = lambda Y, M_, D_, H_, MI, SS, F: ((((Y * 13 + M_) * 32 + D_) * 24 + H_) * 60 + MI) * 60 * 10**6 + SS * 10**6 + F  # injective ordering key
        frac_got = fields.get("f") if fields.get("f") is not None else z3.IntVal(0)
        sec_got = fields["S"]
        if quantum == 1000:
            frac_got = (frac_got / 1000) * 1000
        elif quantum >= 10**6:
            frac_got = z3.IntVal(0)
            if quantum > 10**6:
                sec_got = z3.IntVal(0)  # coarser than seconds: the seconds field is not printed
        got = us(fields["Y"], fields["m"], fields["d"], fields["H"], fields["M"], sec_got, frac_got)
        want = us(y, mo, d, h, mi, s, frac_us)
        S.holds(f"fmt[{nfrac}]", dom + valid + lit_ok, got == want, show=dg)
    res = S.result(format=fmt)
    # concrete conformance + replay on the real function (solver-chosen digits)
    samples = [("20200229123456789", "2020-02-29T12:34:56.789000"), ("2020022912345678", "2020-02-29T12:34:56.780000"),
               ("20491231235959999", "2049-12-31T23:59:59.999000"), ("2014010100000000", "2014-01-01T00:00:00")]
    bad = []
    for f in res.get("cex", []) if res["verdict"] == "violated" else []:
        m = f.get("model", {})
        digs = "".join(m[k] for k in sorted(m, key=lambda k: int(k[1:]))) if m else ""
        if digs:
            samples.append((digs, None))
    for text, want in samples:
        if want is None:
            nf = len(text) - 14
            want = real_dt.datetime(int(text[:4]), int(text[4:6]), int(text[6:8]), int(text[8:10]), int(text[10:12]), int(text[12:14]),
                                    int(text[14:]) * 10 ** (6 - nf)).isoformat()
        try:
            got = T.normalize_datetime(text)
        except Exception as e:  # noqa: BLE001
            got = f"raised {type(e).__name__}"
        if got != want:
            bad.append({"text": text, "got": got, "want": want})
    if bad:
        res.update(verdict="violated", cex={"model": res.get("cex"), "replay": bad}, finding_key="C17.fmt")
    elif res["verdict"] == "violated":
        res.update(verdict="inconclusive", reason="format counterexample did not reproduce on the real function")
    return res


def validate_stubs():
    """the integer model of numpy's timedelta64/datetime64 arithmetic and of timedelta rounding, against the real libraries"""
    import datetime

    import numpy as np

    from ceos_alos2.sar_leader import attitude as AT
    from ceos_alos2.sar_leader import metadata as MD
    from harness import h_time as H

    n = 0
    for y, doy, ms in ((2014, 1, 0), (2020, 60, 86399999), (2020, 366, 1), (2049, 365, 43200000), (2016, 59, 999)):
        t = AT.transform_time({"day_of_year": [doy], "millisecond_of_day": [ms]})
        ref = np.array(f"{y}-01-01", dtype="datetime64[ns]")
        real = int((ref + t)[0].astype("int64"))
        want = (H._days_from_civil(y, 1, 1) + doy - 1) * 86400 * 10**9 + ms * 10**6
        d1, _ = H._att_diff(y, doy, ms)
        assert real - want == d1, ("numpy shim disagrees with numpy", y, doy, ms, real - want, d1)
        n += 1
    for x in (0.0, 3600.5, 12.25, 0.125, 86399.999999, 59.000001, 7.75):
        assert datetime.timedelta(seconds=x) == datetime.timedelta(microseconds=round(x * 1e6)), x
        n += 1
    for unit, q in (("s", 10**6), ("ms", 1000), ("us", 1), ("ns", 1)):  # datetime -> datetime64[unit] floors to the unit
        for us in (1, 999, 1000, 1001, 999999, 1000000, 86399999999):
            d = datetime.datetime(2020, 2, 29) + datetime.timedelta(microseconds=us)
            got = int(np.array([d], dtype=f"datetime64[{unit}]").astype("datetime64[us]").astype("int64")[0])
            want = int(np.datetime64("2020-02-29", "us").astype("int64")) + us // q * q
            assert got == want, ("numpy datetime64 unit conversion is not a floor", unit, us)
            n += 1
    arr = np.array([datetime.datetime(2020, 2, 29, 23, 59, 59, 999000)], dtype="datetime64[ns]")
    assert str(arr[0]) == "2020-02-29T23:59:59.999000000"
    return {"numpy_time_model_vectors": n}
