"""C18 - fail-stop: truncated or missing files raise, never yield a wrong tree (DESIGN 5/C18)."""
import z3

from props.c01 import FUNCS_IO
from vlib.core import Ob

LEVEL = "other"
EXPLANATION = (
    "CrossHair/z3 on the real metadata pass with a symbolic file size: for every size below 720+n*L (every cut point, incl. inside the "
    "descriptor, on record boundaries and +-1) read_metadata raises or returns fewer than n records - never n records from a short file - and "
    "issues nothing after the first request that came back short (prompt termination). Fewer records then conflict with the "
    "header-declared shape when the Dataset is built (xarray contract, validated concretely each run), so open_alos2 raises. Missing "
    "summary/volume/leader/image files map to OSError for every file name (symbolic string) and the cache fallback does not swallow it. "
    "Leader and volume directory: z3 shows the leaves of the live structs tile [0, end) and no Seek occurs, so any strict prefix makes a "
    "fixed-size read come back short (construct raises StreamError); replayed with the real parser at solver-chosen cut points."
)
ASSUMPTIONS = [
    "record length concrete per instance (L=16; thorough also 13, 40): len(content)//L with both symbolic is nonlinear; H and the size are symbolic",
    "xr.Dataset raises on conflicting dimension sizes (validated concretely each run); construct raises on short fixed-size reads",
    "n, rpc enumerated",
]
TRUSTED = ["z3 5.1", "CrossHair 0.0.110", "vlib.env stubs", "vlib.layout class models"]


def obligations(tier):
    q = tier == "quick"
    obs = []
    for L in ([16] if q else [16, 13, 40]):
        for n in range(1, (4 if q else 6) + 1):
            obs.append(Ob(f"C18.trunc.n{n}.L{L}", "X", "read_metadata on a file of any size < 720+n*L raises or returns < n records; at most one request after the first short one",
                          FUNCS_IO, bounds=f"forall 12<=H<{L}, 0<=size<720+{n}*{L}; n={n}, rpc in 1..{n + 2}", harness="harness/h_image.py", func="trunc_ok",
                          params={"n": n, "rpcs": list(range(1, n + 3)), "L": L}, timeout=600))
    for L in ([16] if q else [16, 13]):
        for n in range(1, (3 if q else 5) + 1):
            obs.append(Ob(f"C18.open.n{n}.L{L}", "X", "open_image on a file cut anywhere after the descriptor raises, or returns a group whose image variable keeps the "
                          "header-declared line count while every per-line variable is shorter (which the Dataset constructor rejects): never a consistent smaller tree",
                          FUNCS_IO + ["ceos_alos2.sar_image:open_image", "ceos_alos2.sar_image.metadata:transform_metadata", "ceos_alos2.sar_image.metadata:extract_shape"],
                          bounds=f"forall 12<=H<{L}, 720<=size<720+{n}*{L}, pixels>=1; n={n}, rpc in 1..{n + 2}", harness="harness/h_image.py", func="trunc_open_ok",
                          params={"n": n, "rpcs": list(range(1, n + 3)), "L": L}, timeout=600))
    obs += [
        Ob("C18.missing", "X", "open_summary / open_volume_directory / open_sar_leader on a store without the file raise OSError, for every file name",
           ["ceos_alos2.summary:open_summary", "ceos_alos2.volume_directory.io:open_volume_directory", "ceos_alos2.sar_leader.io:open_sar_leader"],
           bounds="forall names |s|<=3 (unicode)", harness="harness/h_missing.py", func="missing_ok", timeout=120),
        Ob("C18.missing.image", "X", "open_image on a missing image raises OSError (not the internal CachingError) for every option combination",
           ["ceos_alos2.sar_image:open_image", "ceos_alos2.sar_image.caching:read_cache"], bounds="forall use_cache, create_cache, rpc>=1",
           harness="harness/h_missing.py", func="missing_image_ok", timeout=120),
        Ob("C18.listed", "X", "every image file the summary lists is handed to the image reader (which raises for a missing file, C18.missing.image) - present in the "
           "directory listing or not; none is skipped", ["ceos_alos2.io:open"], bounds="forall option combinations; one listed image absent from the directory or none; adjacent "
           "index files present or not; 1..8 images", harness="harness/h_tree.py", func="opts_ok", timeout=600 if tier == "quick" else 1200),
        Ob("C18.short", "L", "leader and volume directory: the leaves tile [0, end) and no Seek occurs, so every strict prefix makes a fixed-size read short",
           ["ceos_alos2.sar_leader.structure:sar_leader_record", "ceos_alos2.volume_directory.structure:volume_directory_record"],
           bounds="forall admissible structure parameters (unbounded)", call="props.c18:ob_short"),
    ]
    obs.append(Ob("C18.e2e", "E", "witness replay through open_alos2: image cut at every record boundary and +-1 byte (4 rpc values), truncated leader / volume directory, every single "
                  "missing file: always an exception, OSError for missing files, never a tree", ["ceos_alos2.xarray:open_alos2"], bounds="concrete replays (not the deciding step)",
                  call="props.e2e:ob_failstop", wall_timeout=900))
    return obs


def ob_short(tier):
    from ceos_alos2.volume_directory.structure import volume_directory_record
    from props.c05 import leader_starts, leader_terms
    from vlib import layout
    from vlib.smt import Session

    S = Session()
    P, it, end, val = leader_terms()
    _, total = leader_starts(P)
    dom = [P["c"] >= 0, P["c"] <= 1, P["nch"] <= 16]
    S.feasible("leader:feasible", it.constraints + dom, show=[P["c"]])
    S.holds("leader:tiles", it.constraints + dom, layout.tiling_claim(it, 0, end), show=[P["c"], P["natt"], P["Latt"], P["nch"]] + P["Lf"])
    n = z3.Int("n")
    itv, endv, _ = layout.interpret(volume_directory_record, values={("volume_descriptor", "number_of_file_pointer_records"): n})
    S.holds("volume:tiles", itv.constraints, layout.tiling_claim(itv, 0, endv), show=[n])
    # solver-chosen cut points, replayed on the real parsers
    cut = z3.Int("cut")
    cuts = []
    for lo, hi in ((0, 720), (720, 4816), (4816, 30000), (30000, 40000)):
        m = S.exists("cut", [cut >= lo, cut < hi, cut < 41036], show=[cut])
        if m:
            cuts.append(m["cut"].as_long())
    res = S.result()
    rep = _replay_short(cuts + [0, 1, 719, 720, 4815, 4816])
    if rep["reproduced"]:
        res.update(verdict="violated", cex={"replay": rep}, finding_key="C18.short")
    elif res["verdict"] == "violated":
        res.update(verdict="inconclusive", reason="tiling counterexample did not reproduce: truncated files still raise")
    res["replayed_cuts"] = rep["cuts"]
    return res


def _replay_short(cuts):
    from ceos_alos2.sar_leader.io import parse_data as parse_leader
    from ceos_alos2.volume_directory.io import parse_data as parse_volume
    from vlib import synth

    from vlib import specwriter

    # files written from the PINNED layout (independent of the live structs) plus, when the live structs can build them, synthesized ones
    files = [("leader", specwriter.write("sar_leader", record_lengths=True)[0], parse_leader), ("volume", specwriter.write("volume_directory", params={"nfp": 3})[0], parse_volume)]
    for name, make, parse in (("leader", synth.leader, parse_leader), ("volume", synth.volume, parse_volume)):
        try:
            files.append((name, make(), parse))
        except AssertionError:
            pass  # the live structs no longer build a file of the documented size: the pinned-layout file above still applies
    bad = []
    tried = []
    for name, raw, parse in files:
        parse(raw)  # the complete file must parse, else the cuts below prove nothing
        for c in sorted(set(cuts + [len(raw) - k for k in (1, 2, 4, 8, 9, 16)])):
            if c >= len(raw):
                continue
            tried.append((name, c))
            try:
                parse(raw[:c])
                bad.append({"file": name, "cut": c})
            except Exception:  # noqa: BLE001
                pass
    return {"reproduced": bool(bad), "failed": bad[:5], "cuts": len(tried)}


def validate_stubs():
    """xarray contract used by the composition: conflicting dimension sizes raise when the Dataset is built"""
    import numpy as np

    from ceos_alos2 import xarray as X
    from ceos_alos2.array import Array
    from ceos_alos2.hierarchy import Group, Variable

    arr = Array(fs=None, url="IMG", byte_ranges=[(0, 4)] * 3, shape=(3, 2), dtype="uint16", type_code="IU2", records_per_chunk=2)
    g = Group("x", None, {"data": Variable(["rows", "columns"], arr, {}), "rows": Variable(["rows"], np.arange(2), {})}, {"coordinates": ["rows"]})
    try:
        X.to_dataset(g)
    except ValueError as e:
        return {"xr.Dataset conflicting sizes raises": str(e)[:60]}
    raise AssertionError("xarray accepted conflicting dimension sizes")
