"""C16 - volume-directory fields surface unchanged as root attributes (DESIGN 5/C16)."""
from vlib.core import Ob

LEVEL = "other"
EXPLANATION = (
    "Layout: the live volume_directory_record is interpreted with a symbolic number of file-pointer records; every field of the volume "
    "descriptor, of the generic file-pointer record and of the text record sits at its pinned offset/width for every count (text record "
    "at 360*(1+n)). Decoding: PaddedString returns the text without padding for every ASCII string up to the bound. Plumbing: the real "
    "transform_record / transform_volume_descriptor / transform_text run with the 14 surfaced text fields as symbolic strings: the root "
    "attributes are exactly the documented names, each carrying its own field, nothing else (ignored fields symbolic too); the "
    "creation date-time text -> ISO 8601 conversion is the format obligation shared with C17. io.open merges these attributes with the "
    "reference-document link (C13.asm). End to end: a volume directory written from the pinned layout through the real reader."
)
ASSUMPTIONS = ["pinned layout is a regression oracle (360-byte records anchor it)", "strings |s| <= 2 in the plumbing (identity flow), <= 5/7 in the adapter lemma",
               "creation timestamp: valid zero-padded digits (C17.fmt)"]
TRUSTED = ["z3 5.1", "CrossHair 0.0.110", "vlib.layout class models"]
F = ["ceos_alos2.volume_directory.metadata:transform_record", "ceos_alos2.volume_directory.metadata:transform_volume_descriptor",
     "ceos_alos2.volume_directory.metadata:transform_text", "ceos_alos2.utils:remove_nesting_layer", "ceos_alos2.utils:rename", "ceos_alos2.dicttoolz:dissoc"]


def obligations(tier):
    to = 300 if tier == "quick" else 900
    maxlen = 5 if tier == "quick" else 7
    return [
        Ob("C16.lay", "L", "volume descriptor, file-pointer records, text record: pinned offsets/widths for every number of file-pointer records",
           ["ceos_alos2.volume_directory.structure:volume_directory_record"], bounds="forall n >= 0 file pointers (unbounded); 69 fields",
           call="props.lay:ob_layout", kwargs={"names": ["volume_directory"]}),
        Ob("C16.anchors", "L", "360-byte records: total size 360*(2+n), text record at 360*(1+n)", ["ceos_alos2.volume_directory.structure:volume_directory_record"],
           bounds="forall n", call="props.lay:ob_anchors", kwargs={"scope": "volume"}),
        Ob("C16.ad", "X", "PaddedString: text without padding (stripped), any content", ["ceos_alos2.datatypes:PaddedString._decode"], bounds=f"forall ASCII strings |s| <= {maxlen}",
           harness="harness/h_adapters.py", func="padded_string_ok", params={"maxlen": maxlen}, timeout=to),
        Ob("C16.count", "X", "the count of file-pointer records (and every other ASCII integer of the volume directory) reads as the number written in its field - "
           "0 in any padding (blank-, zero-padded, left-justified) is 0, not 'blank': the records in between are skipped for any N incl. 0",
           ["ceos_alos2.datatypes:AsciiInteger._decode"], bounds=f"forall ASCII strings |s| <= {maxlen}", outside="CPython int() (uninterpreted)",
           harness="harness/h_adapters.py", func="ascii_int_ok", params={"maxlen": maxlen}, timeout=to),
        Ob("C16.plumb", "X", "root attributes = the documented 15 names; each text attribute is its own field unchanged, for 0 and 3 file pointers; ignored fields never surface",
           F, bounds="forall 14 surfaced + 2 ignored text contents |s| <= 2 (unicode)", harness="harness/h_adapters.py", func="volume_ok", timeout=to),
        Ob("C16.inner", "X", "a text value with a run of 0..3 blanks inside it (after the padding is stripped) surfaces unchanged as its root attribute, in each of the 14 fields",
           F, bounds="forall characters a, b (non-blank), gap 0..3, field index 0..13, 0 / 3 file pointers", harness="harness/h_adapters.py", func="volume_inner_ok", timeout=to),
        Ob("C16.fmt", "N", "creation date-time yyyymmddhhmmssxx -> ISO 8601 of the same instant", ["ceos_alos2.transformers:normalize_datetime"],
           bounds="forall valid digit strings", call="props.c17:ob_fmt"),
        Ob("C16.e2e", "E", "a volume directory written from the pinned layout -> real open_volume_directory: every root attribute equals the text written at its pinned position",
           F + ["ceos_alos2.volume_directory.io:open_volume_directory"], bounds="concrete replay (not the deciding step): 3 file pointers",
           call="props.plumb:ob_e2e", kwargs={"families": ["volume"]}),
    ]


def validate_stubs():
    from vlib import layout

    return {"layout_interpreter_vs_synth_leaves": layout.conformance()}
