"""C07 - cache transparency (DESIGN 5/C07)."""
from vlib.core import Ob

LEVEL = "other"
EXPLANATION = (
    "CrossHair/z3 executes the real cache glue (open_image, caching.read_cache/create_cache/encode/decode, caching.path.*, the array part "
    "of the codec, cli.create_cache) against one explicit model of a local machine (files seen through pathlib and through the fsspec "
    "mapper) with symbolic state: each of the two index locations absent or complete, the options use_cache/create_cache, the document "
    "length. For every state and option vector the solver shows: the returned group equals an uncached open with THIS call's "
    "records_per_chunk (oracle: independent structural comparison incl. byte ranges, shape, dtype, chunk offsets, filesystem binding); "
    "use_cache=False touches no cache location; a usable cache (user cache dir first, then adjacent) means the image is not opened; no "
    "cache means exactly one open of the image; writes go only to this image's index in the user cache dir and only with "
    "create_cache=True; every index written decodes to the group for any records_per_chunk; the CLI writes <image>.index next to the "
    "image (or into the target directory), nothing else, and that adjacent file is what a later cached open finds. The array entry of "
    "the index round-trips (root, url, shape, dtype, byte ranges, type code) for symbolic integers/strings on file, memory and custom "
    "protocols; the user-cache location is a function of (root, file name) for symbolic strings."
)
ASSUMPTIONS = [
    "json contract (vlib.jsonc): identity on JSON value trees, hooks applied bottom-up, strict prefixes rejected - validated against the real json module on every run",
    "pathlib/fsspec contract: a mapper rooted at directory d sees exactly the files pathlib sees in d (local filesystem); DirFileSystem(path, fs) addresses path on fs; fs._strip_protocol removes the protocol prefix",
    "hashlib digest is a collision-free function of its input",
    "construct record parsing replaced by RecParser (contract proved in C01.rec); line-record fields of the stand-in records are concrete (ints incl. int32/int64 extremes, floats, bools, datetimes, non-ASCII units)",
    "image geometry, records_per_chunk (this call / writing call) enumerated per instance; element values of non-image variables are concrete here - their codec is C08",
]
TRUSTED = ["z3 5.1", "CrossHair 0.0.110", "harness/h_cache.py world model", "vlib.jsonc"]

FUNCS = ["ceos_alos2.sar_image:open_image", "ceos_alos2.sar_image.caching:read_cache", "ceos_alos2.sar_image.caching:create_cache",
         "ceos_alos2.sar_image.caching:encode", "ceos_alos2.sar_image.caching:decode", "ceos_alos2.sar_image.caching.path:local_cache_location",
         "ceos_alos2.sar_image.caching.path:remote_cache_location", "ceos_alos2.sar_image.caching.path:hashsum",
         "ceos_alos2.sar_image.caching.encoders:encode_hierarchy", "ceos_alos2.sar_image.caching.encoders:encode_group",
         "ceos_alos2.sar_image.caching.encoders:encode_variable", "ceos_alos2.sar_image.caching.encoders:encode_array",
         "ceos_alos2.sar_image.caching.encoders:preprocess", "ceos_alos2.sar_image.caching.decoders:decode_hierarchy",
         "ceos_alos2.sar_image.caching.decoders:decode_group", "ceos_alos2.sar_image.caching.decoders:decode_variable",
         "ceos_alos2.sar_image.caching.decoders:decode_array", "ceos_alos2.sar_image.caching.decoders:postprocess",
         "ceos_alos2.array:Array.__post_init__", "ceos_alos2.array:normalize_chunksize", "ceos_alos2.sar_image.metadata:transform_metadata",
         "ceos_alos2.sar_image.io:read_metadata", "ceos_alos2.sar_image:filename_to_groupname"]
FUNCS_CLI = ["ceos_alos2.sar_image.cli:create_cache"] + FUNCS

IMG11 = "IMG-HV-ALOS2290760600-191011-WBDR1.1__D-F2"


def grid(tier):
    """(n, rpcs, rpcs_w, type_code, imgname) instances"""
    if tier == "quick":
        return [(2, [r], [w], "IU2", None) for r in (1, 2, 3) for w in (1, 5)] + [(3, [2], [4], "C*8", IMG11)]
    out = [(3, [r], [w], "IU2", None) for r in (1, 2, 3, 4, 1024) for w in (1, 2, 3, 7)]
    out += [(2, [r], [w], "C*8", IMG11) for r in (1, 2, 5) for w in (1, 3)]
    out += [(1, [r], [w], "IU2", None) for r in (1, 2) for w in (1, 2)]
    return out


def params(n, rpcs, rpcs_w, tc, img):
    p = {"n": n, "rpcs": rpcs, "rpcs_w": rpcs_w, "type_code": tc}
    if img:
        p["imgname"] = img
    if tc == "C*8":
        p["dtype"] = "complex64"
    return p


def tag(n, rpcs, rpcs_w, tc, img):
    return f"n{n}.r{'_'.join(map(str, rpcs))}.w{'_'.join(map(str, rpcs_w))}.{tc.replace('*', '')}"


def obligations(tier):
    to = 300 if tier == "quick" else 900
    obs = []
    for inst in grid(tier):
        obs.append(Ob(f"C07.glue.{tag(*inst)}", "X",
                      "open_image from any cache state (each location absent/complete) with any (use_cache, create_cache): result = uncached open "
                      "with this call's records_per_chunk; use_cache=False consults nothing; usable cache => image not opened; no cache => one open; "
                      "writes only the local index and only when asked; every written index decodes to the group; idempotent",
                      FUNCS, bounds=f"forall use_cache, create_cache, local, adjacent in {{absent, complete}}, document length >= 2; lines={inst[0]}, "
                      f"rpc={inst[1]}, rpc of the writer={inst[2]}, {inst[3]}", harness="harness/h_cache.py", func="glue_ok", params=params(*inst), timeout=to))
    cli_insts = [(2, [1, 2, 3], [1, 5], "IU2", None)] if tier == "quick" else [(3, [1, 2, 3, 4, 1024], [1, 3, 7], "IU2", None), (2, [1, 2, 3], [2], "C*8", IMG11)]
    for inst in cli_insts:
        obs.append(Ob(f"C07.cli.{tag(*inst)}", "X",
                      "ceos-alos2-create-cache core: missing image => FileNotFoundError, missing target dir => OSError, nothing written; otherwise exactly "
                      "<image>.index is written next to the image / into the target, it decodes to the uncached group for every rpc, no cache is read and "
                      "the user cache dir is untouched; a later use_cache=True open finds the adjacent file without opening the image",
                      FUNCS_CLI, bounds=f"forall image exists, target given, target exists, local cache present, document length; lines={inst[0]}, rpc={inst[1]}, cli rpc={inst[2]}",
                      harness="harness/h_cache.py", func="cli_ok", params=params(*inst), timeout=to))
    for tc in ("IU2", "C*8"):
        obs.append(Ob(f"C07.arr.{tc.replace('*', '')}", "X",
                      "index entry of the image array: encode_array -> preprocess -> json -> postprocess -> decode_array gives back url, shape (tuple), dtype, "
                      "byte ranges (tuples), type code, chunk offsets for this call's rpc, and a DirFileSystem on the product's own filesystem at the same root",
                      ["ceos_alos2.sar_image.caching.encoders:encode_array", "ceos_alos2.sar_image.caching.encoders:preprocess",
                       "ceos_alos2.sar_image.caching.decoders:decode_array", "ceos_alos2.sar_image.caching.decoders:postprocess", "ceos_alos2.array:Array.__post_init__"],
                      bounds="forall root strings |s|<=3, protocol in {file, memory, x}, lines, pixels >= 1, 0<=s0<=e0<=s1<=e1 (unbounded ints); rpc in {1,2,3} x writer rpc {1,5}",
                      harness="harness/h_cache.py", func="array_codec_ok", params={"rpcs": [1, 2, 3], "rpcs_w": [1, 5], "type_code": tc,
                                                                                   "dtype": "uint16" if tc == "IU2" else "complex64"}, timeout=to))
    obs += [
        Ob("C07.loc.root", "X", "user-cache location = cache_root / H(root) / (file name + '.index'); adjacent location = path + '.index'",
           ["ceos_alos2.sar_image.caching.path:local_cache_location", "ceos_alos2.sar_image.caching.path:remote_cache_location", "ceos_alos2.sar_image.caching.path:hashsum"],
           bounds="forall root strings |s|<=3 (unicode); 5 concrete paths", harness="harness/h_cache.py", func="location_root_ok", timeout=to),
        Ob("C07.loc.path", "X", "file name = text after the last '/' of the image path (reference: index loop), for every path",
           ["ceos_alos2.sar_image.caching.path:local_cache_location", "ceos_alos2.sar_image.caching.path:remote_cache_location"],
           bounds="forall path strings |s|<=4 (unicode); 3 concrete roots", harness="harness/h_cache.py", func="location_path_ok", timeout=to),
        Ob("C07.opts", "X", "the product entry point hands use_cache / create_cache / records_per_chunk of THIS call to every image unchanged, for every combination (also "
           "use_cache and create_cache together): with use_cache=True the per-image reader is told to use the cache, with False not to",
           ["ceos_alos2.xarray:open_alos2", "ceos_alos2.io:open"], bounds="forall use_cache, create_cache, rpc (int), option keys present/absent; 1..3 images",
           harness="harness/h_tree.py", func="opts_ok", timeout=to),
        Ob("C07.e2e", "E", "witness replay through open_alos2 on synthesised products: cache written by option / CLI, user cache dir / adjacent, "
           "local path / file:// / memory://, rpc at write != rpc at read: cached tree == uncached tree, pixels == synthesised samples",
           ["ceos_alos2.xarray:open_alos2", "ceos_alos2.io:open", "ceos_alos2.sar_image.cli:create_cache"],
           bounds="concrete replays (not the deciding step): 2 levels x 3 protocols x 2 producers x 2 locations", call="props.c07:ob_e2e", wall_timeout=900),
    ]
    return obs


def ob_e2e(tier):
    from vlib import api

    runs, bad = [], []
    for level in ("1.5", "1.1"):
        for protocol in ("file", "fileurl", "memory"):
            for producer, location in (("option", "local"), ("option", "adjacent"), ("cli", "adjacent")):
                if producer == "cli" and protocol == "memory":
                    continue
                r = api.cache_transparency(protocol=protocol, level=level, rpc_w=2, rpc_r=3 if level == "1.5" else 1000, producer=producer, location=location)
                r.update(level=level, protocol=protocol, producer=producer, location=location)
                runs.append(r)
                if r.get("reproduced"):
                    bad.append(r)
    # a cache produced by create_cache=True for a re-delivered image (same name) is the cache of THAT image
    for level in ("1.5", "1.1"):
        r = api.stale_cache(level)
        r.update(level=level, protocol="file", producer="option (regenerated after the image was replaced)", location="local")
        runs.append(r)
        if r.get("reproduced"):
            bad.append(r)
    res = {"verdict": "violated" if bad else "discharged", "queries": len(runs), "replays": len(runs)}
    if bad:
        res["cex"] = bad[:3]
        res["finding_key"] = "C07.e2e:" + ";".join(f"{b['level']}/{b['protocol']}/{b['producer']}/{b['location']}" for b in bad)
    return res


def validate_stubs():
    import json
    import os
    import tempfile

    import fsspec
    from fsspec.implementations.dirfs import DirFileSystem

    from ceos_alos2.sar_image import caching, open_image
    from vlib import jsonc, synth

    out = {}
    # json contract on value trees + prefix lemma on a real index document
    root = tempfile.mkdtemp(prefix="vstub_")
    try:
        datas = synth.product(synth.dir_writer(root), "1.5", n=3, p=2, pols=("HH",))
        mapper = fsspec.get_mapper(root)
        g = open_image(mapper, next(iter(datas)), use_cache=False, records_per_chunk=2)
        doc = caching.encode(g)
    finally:
        import shutil

        shutil.rmtree(root, ignore_errors=True)
    samples = [1, -1, 2**63, 1.5, float("inf"), True, None, "°é", [1, (2, 3)], {"a": {"__t__": 1, "b": [1, 2]}}, {1: 2, None: 3, True: 4}, {"k": object()},
               {(1, 2): 3}, [b"x"], {"t": (1, (2, (3,)))}, json.loads(doc)]
    out.update(jsonc.conformance(samples, index_document=doc))
    # fsspec contracts used by the world model
    assert fsspec.get_mapper("file:///a/b").root == "/a/b" and fsspec.get_mapper("/a/b").root == "/a/b"
    m = fsspec.get_mapper("memory://x/y")
    assert type(m.fs).__name__ == "MemoryFileSystem" and m.fs._strip_protocol("memory://x/y") == m.fs._strip_protocol("/x/y") == "/x/y"
    lf = fsspec.filesystem("file")
    assert lf._strip_protocol("file:///a/b") == "/a/b" == lf._strip_protocol("/a/b")
    d = DirFileSystem(path="/a/b", fs=lf)
    assert d.path == "/a/b" and d.fs is lf
    import pathlib

    assert pathlib.PurePosixPath("/a/b").as_uri() == "file:///a/b" and (pathlib.PurePosixPath("/a") / "b.index").name == "b.index"
    out["fsspec/pathlib contracts"] = "get_mapper root, _strip_protocol (file, memory), DirFileSystem(path, fs), Path.as_uri"
    import hashlib

    assert hashlib.new("sha256", b"/a").hexdigest() != hashlib.new("sha256", b"/b").hexdigest() and "/" not in hashlib.new("sha256", b"/a").hexdigest()
    return out
