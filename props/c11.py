"""C11 - reads are bounded and grouped (DESIGN 5/C11): assertions on the event log of the abstract filesystem."""
from props.c01 import FUNCS_ARR, FUNCS_IO
from vlib.core import Ob

LEVEL = "other"
EXPLANATION = (
    "CrossHair/z3 symbolic execution of the real metadata pass and Array loads against an abstract filesystem that logs every "
    "open/seek/read with (symbolic) offsets and sizes. Decided for all symbolic H<L (and slice bounds): loads open only the array's own "
    "url, once; issue exactly one seek+read per group of rpc'=min(rpc,n) consecutive lines that contains a selected line, in order of "
    "first use; each read lies inside [720+c*rpc'*L, 720+min((c+1)*rpc', n)*L) and the file; nothing is read for untouched groups or "
    "empty selections. The metadata pass reads (0, 720) and then at most ceil(n/rpc) requests, each starting where the previous one "
    "ended, each at most rpc*L bytes, ending at the file size, without seeking. n, rpc, steps enumerated per instance."
)
ASSUMPTIONS = ["fsspec file contract (SpanFile/StubFS logs stand for the requests issued)", "n, rpc enumerated up to the stated bounds"]
TRUSTED = ["z3 5.1", "CrossHair 0.0.110", "vlib.env stubs"]


def obligations(tier):
    q = tier == "quick"
    ns = list(range(0, 6)) if q else list(range(0, 11))
    rpcs = list(range(1, 8)) if q else list(range(1, 13))
    obs = []
    for rtype in (10, 11):
        obs.append(Ob(f"C11.meta.t{rtype}", "X", "opening reads the descriptor then <= ceil(n/rpc) sequential requests tiling the line records", FUNCS_IO,
                      bounds=f"forall 12<=H<L; n in 0..{ns[-1]}, rpc in 1..{rpcs[-1]}", harness="harness/h_image.py", func="meta_ok",
                      params={"ns": ns, "rpcs": rpcs, "rtype": rtype}, timeout=300))
    obs.append(Ob("C11.open", "X", "open_image opens only its own image, once; a full load opens only that image again", FUNCS_IO + FUNCS_ARR + ["ceos_alos2.sar_image:open_image"],
                  bounds="forall 12<=H<L; n in 0..4, rpc in 1..6", harness="harness/h_image.py", func="open_ok",
                  params={"ns": [0, 1, 2, 3, 4], "rpcs": [1, 2, 3, 4, 5, 6]}, timeout=300))
    nmax = 4 if q else 6
    for n in range(1, nmax + 1):
        rr = list(range(1, n + 2))
        obs.append(Ob(f"C11.rows.n{n}", "X", "row-list loads: one read per touched group, inside the group and the file, none elsewhere", FUNCS_ARR,
                      bounds=f"forall 0<H<L; n={n}, rpc in 1..{n + 1}, monotone row lists of length<={min(n, 3)}",
                      harness="harness/h_image.py", func="rows_ok", params={"n": n, "rpcs": rr, "maxrows": min(n, 3)}, timeout=600))
    steps = [None, 1, 2] if q else [None, 1, 2, 3]
    for n in range(2, (3 if q else 5) + 1):
        for rpc in range(1, n + 1):
            obs.append(Ob(f"C11.slice.n{n}r{rpc}", "X", "slice loads (incl. empty selections): one read per touched group, inside the group, none for untouched groups",
                          FUNCS_ARR, bounds=f"n={n}, m=3, rpc={rpc}; forall start, stop in [-{n + 2},{n + 2}], H>0; steps {steps}",
                          harness="harness/h_image.py", func="basic_slice_ok", params={"n": n, "m": 3, "rpc": rpc, "steps": steps}, timeout=900 if q else 3600))
    obs.append(Ob("C11.default", "X", "the group size used for reads when records_per_chunk is not given (None, as on the cache path) is the documented default 1024 lines, "
                  "-1 means all lines", ["ceos_alos2.array:Array.__post_init__", "ceos_alos2.array:normalize_chunksize"], bounds="forall n>=1, m>=1",
                  harness="harness/h_enc.py", func="enc_default_ok", timeout=120))
    obs.append(Ob("C11.e2e", "E", "witness replay on an instrumented filesystem (logs every open/seek/read with offsets): open pass = descriptor + <= ceil(n/rpc) sequential requests; "
                  "a selection load = at most one read per touched group, confined to the group and the file; no other file touched", ["ceos_alos2.xarray:open_alos2", "ceos_alos2.array:Array.__getitem__"],
                  bounds="concrete replays (not the deciding step): 6 selections x 2 levels", call="props.e2e:ob_io", wall_timeout=600))
    return obs
