"""C13 - tree assembly: one correctly named group per image, none dropped or swapped (DESIGN 5/C13)."""
from vlib.core import Ob

LEVEL = "other"
EXPLANATION = (
    "CrossHair/z3 on the real assembly glue. io.open / open_alos2 (sub-openers replaced by recording stand-ins, image stand-in named by "
    "the real filename_to_groupname): for k images over polarisation x scan combinations in any summary order the root has exactly "
    "summary, metadata, imagery; imagery has exactly k children in summary order, child i is named after and built from file i with this "
    "call's options, every file is requested from the product's own mapper, root attributes = volume-directory attributes + reference "
    "link, subtree lists every group once (symbolic options). Group names: polarisation, '_scan<digit>' for every digit 0-9, unique per "
    "(polarisation, scan) (symbolic strings/digits). Roles: first / second / middle / last file names for every number of files (symbolic "
    "names). Leader record groups present exactly for the records present (symbolic presence flags, real transform_metadata). Coordinates: "
    "to_dataset turns exactly the names listed in the bookkeeping attribute into coordinates and removes the attribute without consuming "
    "the group's own attrs (symbolic names); that every listed name is a variable of its group is part of the pinned trees (C03/C04). "
    "Witness replays open synthesised products with 1-14 images."
)
ASSUMPTIONS = ["xarray.DataTree.from_dict / Dataset.set_coords (trusted; replays go through them)", "decode_filename itself: C15 (language level)",
               "image orders enumerated (6 orders over 14 names) in the assembly obligation; options symbolic"]
TRUSTED = ["z3 5.1", "CrossHair 0.0.110"]


def obligations(tier):
    to = 400 if tier == "quick" else 1200
    orders = [[0], [1, 0], [0, 1, 2, 3], [4, 9, 5, 10], [3, 2, 1, 0, 4, 5, 6, 7], [7, 12, 8, 13]]
    if tier == "thorough":
        orders += [[13, 12, 11, 10, 9, 8, 7, 6, 5, 4, 3, 2, 1, 0], [2], [5, 4]]
    return [
        Ob("C13.asm", "X", "root children exactly summary/metadata/imagery; imagery: k groups in summary order, each named after and built from its own file with this call's options; "
           "root attrs = volume attrs + reference link; every path once in subtree",
           ["ceos_alos2.io:open", "ceos_alos2.xarray:open_alos2", "ceos_alos2.hierarchy:Group.__post_init__", "ceos_alos2.hierarchy:Group.subtree",
            "ceos_alos2.sar_image:filename_to_groupname"], bounds=f"forall option values/presence (symbolic); image orders {orders}",
           harness="harness/h_tree.py", func="opts_ok", params={"orders": orders}, timeout=to),
        Ob("C13.name", "X", "group name = polarisation [+ '_scan' + digit]; unique per (polarisation, scan)", ["ceos_alos2.sar_image:filename_to_groupname"],
           bounds="forall polarisation strings |s|=2, digits 0-9, with/without polarisation and scan", harness="harness/h_names.py", func="groupname_ok", timeout=to),
        Ob("C13.roles", "X", "file roles: first = volume directory, second = leader, last = trailer, the rest = images in order", ["ceos_alos2.summary:categorize_filenames"],
           bounds="forall 3..7 names |s|<=2", harness="harness/h_tree.py", func="roles_ok", timeout=to),
        Ob("C13.present", "X", "/metadata has exactly the record groups present in the leader (0/1 map projection, platform position, attitude), in file order, "
           "facility 5 as 'transformations'; each transformer gets its own record", ["ceos_alos2.sar_leader.metadata:transform_metadata", "ceos_alos2.sar_leader.metadata:fix_attitude_time"],
           bounds="forall presence flags, reference year 2014..2049", harness="harness/h_tree.py", func="present_ok", timeout=to),
        Ob("C13.coords", "X", "to_dataset: listed names become coordinates, the bookkeeping attribute is removed from the dataset but not from the group",
           ["ceos_alos2.xarray:to_dataset", "ceos_alos2.xarray:decode_coords"], bounds="forall <=3 distinct names |s|<=2, 0..3 listed, attribute present or not",
           harness="harness/h_tree.py", func="coords_ok", timeout=to),
        Ob("C13.e2e", "E", "witness replay through open_alos2: 1, 2, 4 (quad-pol), 4 (2 pol x 2 scans, cached), 14 (2 pol x 7 scans) images; with / without map projection: children, names, "
           "order, each group's pixels == its own file, record groups, root attributes, coordinates", ["ceos_alos2.xarray:open_alos2", "ceos_alos2.io:open"],
           bounds="concrete replays (not the deciding step)", call="props.c13:ob_e2e", wall_timeout=900),
    ]


def ob_e2e(tier):
    from vlib import api

    cases = [dict(level="1.5", pols=("HH",)), dict(level="1.5"), dict(level="1.5", pols=("HH", "HV", "VH", "VV"), with_mp=False),
             dict(level="1.1", pols=("HH", "HV"), scans=("F1", "F2"), use_cache_cycle=True, pid="WWDR1.1__D"),
             dict(level="1.1", pols=("HH", "HV"), scans=("F1", "F2", "F3", "F4", "F5", "F6", "F7"), with_mp=False, pid="VBDR1.1__D"),
             dict(level="1.1", pols=("HV",), scans=("B0", "B9"), pid="WBDR1.1__A")]
    bad = []
    for c in cases:
        r = api.assembly(**c)
        if r.get("reproduced"):
            bad.append(dict(r, case={k: v for k, v in c.items()}))
    # each group holds the pixels of its own file also when the product lives on a non-local filesystem and is served from index files
    # lying next to the images (default options)
    r = api.cache_transparency(protocol="memory", location="adjacent", level="1.5")
    cases.append(dict(level="1.5", protocol="memory", cache="adjacent"))
    if r.get("reproduced"):
        bad.append({"detail": [str(r.get("diffs") or r.get("error"))[:200]], "case": cases[-1]})
    res = {"verdict": "violated" if bad else "discharged", "queries": len(cases), "replays": len(cases)}
    if bad:
        res["cex"] = bad[:3]
        res["finding_key"] = "C13.e2e:" + ";".join(d for b in bad for d in b["detail"][:1])[:300]
    return res
