"""C02 - indexing equivalence (DESIGN 5/C02).  The xarray adapter (IndexingSupport.BASIC) hands the backend per axis an int or a
slice; the obligation on the repository is that Array[(rk, ck)] equals numpy basic indexing of the full image for every such key."""
from vlib.core import Ob
from props.c01 import FUNCS_ARR

LEVEL = "other"
EXPLANATION = (
    "CrossHair/z3 symbolic execution of the real Array.__getitem__ chain on an abstract file (bytes identified by position). For "
    "every backend key (row key, column key) with row/column keys ints or slices - start/stop symbolic over [-(n+2), n+2] and None, "
    "steps enumerated, header length H symbolic and unbounded - the result has the shape numpy basic indexing gives (ints drop the "
    "axis, empty slices give (0, m)) and element (a, b) is the sample at (range(n)[rk][a], range(m)[ck][b]). Image sizes n, m and "
    "records_per_chunk are enumerated per instance. Outer/vectorised/boolean/negative-step selections are rewritten by xarray into "
    "such basic keys plus a numpy post-index (adapter contract, exercised in API-level replay only)."
)
ASSUMPTIONS = [
    "xarray's explicit_indexing_adapter with IndexingSupport.BASIC delivers per axis an int or a slice and post-indexes with numpy (trusted; replay goes through it)",
    "np.stack keeps order and raises on an empty list; numpy basic indexing on the stacked array = python range semantics per axis (Mat stand-in)",
    "fsspec file contract (SpanFile)",
    "image sizes and records_per_chunk enumerated up to the stated bounds; larger geometries outside the claim",
]
TRUSTED = ["z3 5.1", "CrossHair 0.0.110", "vlib.env stubs (Span, SpanFile, StubFS, stub_stack)", "Mat stand-in for numpy basic indexing"]


def obligations(tier):
    q = tier == "quick"
    nmax, m, steps = (3, 3, [None, 1, 2]) if q else (5, 4, [None, 1, 2, 3])
    to = 900 if q else 3600
    obs = []
    for n in range(1, nmax + 1):
        obs.append(Ob(f"C02.sel.n{n}", "X", "compute_selected_ranges(br, k) = [(i, br[i]) for i in range(n)[k]] for slices (any sign of step) and ints",
                      ["ceos_alos2.array:compute_selected_ranges"], bounds=f"n={n}; forall start, stop in [-{n + 2},{n + 2}] and None; steps {steps + [-1, -2]}; ints -n..n-1",
                      harness="harness/h_image.py", func="sel_ok", params={"n": n, "steps": steps}, timeout=to))
        for rpc in range(1, n + 2):
            params = {"n": n, "m": m, "rpc": rpc, "steps": steps}
            b = f"n={n}, m={m}, rpc={rpc}; forall H>0"
            obs += [
                Ob(f"C02.basic.slice.n{n}r{rpc}", "X", "Array[(slice(a,b,s), :)] has numpy's shape and elements", FUNCS_ARR,
                   bounds=b + f"; forall a, b in [-{n + 2},{n + 2}]; steps {steps}", harness="harness/h_image.py", func="basic_slice_ok", params=params, timeout=to),
                Ob(f"C02.basic.open.n{n}r{rpc}", "X", "Array[(slice(a,None,s) | slice(None,b,s) | slice(None), cols)] has numpy's shape and elements", FUNCS_ARR,
                   bounds=b + f"; forall bound in [-{n + 2},{n + 2}]; steps {steps}", harness="harness/h_image.py", func="basic_open_slice_ok", params=params, timeout=to),
                Ob(f"C02.basic.int.n{n}r{rpc}", "X", "integer row keys drop the row axis; column slices are applied unchanged", FUNCS_ARR,
                   bounds=b + f"; rows in {{0,n-1,-1,-n}} and slice(None); forall column start/stop in [-{m + 1},{m + 1}]", harness="harness/h_image.py", func="basic_int_ok", params=params, timeout=to),
                Ob(f"C02.basic.intcol.n{n}r{rpc}", "X", "(int|slice, int) keys: scalar / 1-d results equal numpy's", FUNCS_ARR,
                   bounds=b + "; all row ints -n..n-1, all column ints -m..m-1", harness="harness/h_image.py", func="basic_intcol_ok", params=params, timeout=to),
            ]
    for n, rpc in ((3, 2), (3, 3)) if q else ((3, 2), (3, 3), (5, 2), (5, 4)):
        obs.append(Ob(f"C02.seq.n{n}r{rpc}", "X", "several selections on one opened image in sequence (row, row, leading slice, full image, first row again): each equals numpy "
                      "on the full image - a selection leaves nothing behind that changes a later one", FUNCS_ARR,
                      bounds=f"n={n}, m={m}, rpc={rpc}; forall rows k1, k2 in 0..n-1, stop in 0..n, H>0", harness="harness/h_image.py", func="basic_seq_ok",
                      params={"n": n, "m": m, "rpc": rpc, "steps": steps}, timeout=to))
    obs.append(Ob("C02.adapter", "X", "the wrapper declares exactly the indexing support the backend implements: keys reach Array.__getitem__ only through "
                  "explicit_indexing_adapter(key, header shape, IndexingSupport.BASIC, raw method under the lock)",
                  ["ceos_alos2.xarray:LazilyIndexedWrapper.__getitem__", "ceos_alos2.xarray:LazilyIndexedWrapper._raw_indexing_method"],
                  bounds="forall shapes; symbolic key token", harness="harness/h_tree.py", func="adapter_ok", timeout=300))
    obs.append(Ob("C02.e2e", "E", "witness replay through DataArray.isel: outer lists, boolean masks, vectorised points, negative steps, repeated and empty selections, "
                  "ints - dims, shape, coordinates, values equal numpy on the fully loaded image",
                  ["ceos_alos2.xarray:LazilyIndexedWrapper.__getitem__", "ceos_alos2.array:Array.__getitem__"],
                  bounds="concrete replays (not the deciding step): 14 selections x both sample types x rpc below/above the line count", call="props.c12:ob_e2e_sel", wall_timeout=600))
    return obs
