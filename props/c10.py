"""C10 - opening is a pure function of the product, independent of open history (DESIGN 5/C10)."""
from props import c07
from vlib.core import Ob

LEVEL = "other"
EXPLANATION = (
    "Histories are covered by ONE inductive step from an arbitrary valid state instead of enumerating sequences. State: each index "
    "location (user cache dir, adjacent) absent or holding a complete document written by some earlier call with records_per_chunk w. "
    "Invariant Inv: every index present decodes, for every records_per_chunk, to the group an uncached open returns. CrossHair/z3 runs the "
    "real open_image / cli.create_cache for a symbolic operation in {open(use_cache, create_cache, rpc), cli-create(rpc, adjacent | "
    "target dir), delete user-cache index, delete adjacent index} from every state satisfying Inv and shows: (a) an open returns the "
    "uncached group with this step's records_per_chunk whatever the state, (b) Inv holds afterwards, (c) files other than the ones the "
    "operation may write are untouched - opening never writes below the product directory and writes the user-cache index only with "
    "create_cache=True. Inv holds initially (no caches), so by induction every history of any length returns uncached-equal trees. "
    "Separately: open_alos2 / io.open thread the options unchanged to every image and leave the caller's option dictionaries and "
    "the function defaults unmodified (symbolic option values), and Group construction does not alias earlier results."
)
ASSUMPTIONS = c07.ASSUMPTIONS + [
    "the induction hypothesis is Inv (complete documents only); torn documents are C09",
    "records_per_chunk of the step and of the writer enumerated per instance",
]
TRUSTED = c07.TRUSTED


def obligations(tier):
    to = 300 if tier == "quick" else 900
    obs = []
    insts = [(2, [r], [w], "IU2", None) for r in (1, 2, 3) for w in (1, 5)] if tier == "quick" else \
        [(3, [r], [w], "IU2", None) for r in (1, 2, 3, 4, 1024) for w in (1, 2, 7)] + [(2, [r], [3], "C*8", c07.IMG11) for r in (1, 2, 3)]
    for inst in insts:
        obs.append(Ob(f"C10.step.{c07.tag(*inst)}", "X",
                      "one step of any operation from any state satisfying Inv: open result = uncached group for this step's rpc; Inv preserved; "
                      "only the files the operation may write change; nothing is written below the product directory by an open",
                      c07.FUNCS_CLI, bounds=f"forall op in {{open, cli-create, delete local, delete adjacent}}, use_cache, create_cache, local/adjacent present, cli target, "
                      f"document length; lines={inst[0]}, rpc={inst[1]}, writer rpc={inst[2]}, {inst[3]}",
                      harness="harness/h_cache.py", func="history_step_ok", params=c07.params(*inst), timeout=to))
    obs += [
        Ob("C10.opts", "X", "open_alos2 -> io.open: storage_options reach get_mapper, (use_cache, create_cache, records_per_chunk) reach every image unchanged; "
           "the caller's backend_options / storage_options dicts and the {} defaults are unmodified afterwards; result assembled from this call's parts only",
           ["ceos_alos2.xarray:open_alos2", "ceos_alos2.io:open"], bounds="forall use_cache, create_cache, rpc (int), option keys present/absent; 1..3 images",
           harness="harness/h_tree.py", func="opts_ok", timeout=to),
        Ob("C10.alias", "X", "Group nesting copies: building a parent from child groups, or __setitem__, never mutates the children as seen by earlier results "
           "(path, url, members); subtree/decouple do not mutate", ["ceos_alos2.hierarchy:Group.__post_init__", "ceos_alos2.hierarchy:Group._adjust_item",
           "ceos_alos2.hierarchy:Group.__setitem__", "ceos_alos2.hierarchy:Group.decouple", "ceos_alos2.hierarchy:Group.subtree"],
           bounds="forall names |s|<=2, urls; <=3 children, depth 3", harness="harness/h_tree.py", func="alias_ok", timeout=to),
        Ob("C10.e2e", "E", "witness replay through open_alos2: a 9-step history (opens with all option mixes and three rpc values, CLI cache creation, deletions) on "
           "level 1.5 and 1.1 products; every step equals a fresh uncached open; product directory listing and bytes unchanged except CLI index files",
           ["ceos_alos2.xarray:open_alos2", "ceos_alos2.sar_image.cli:create_cache"], bounds="concrete replay (not the deciding step)", call="props.c10:ob_e2e", wall_timeout=900),
    ]
    return obs


def ob_e2e(tier):
    from vlib import api

    bad = []
    runs = 0
    for level in ("1.5", "1.1"):
        r = api.history(level)
        runs += r.get("steps", 0)
        if r.get("reproduced"):
            r["level"] = level
            bad.append(r)
    res = {"verdict": "violated" if bad else "discharged", "queries": runs, "replays": runs}
    if bad:
        res["cex"] = bad[:2]
        res["finding_key"] = "C10.e2e:" + ";".join(str(b.get("step")) for b in bad)
    return res


validate_stubs = c07.validate_stubs
