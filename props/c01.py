"""C01 - pixel fidelity.  Chain: C01.fd o C01.rec o C01.meta o C01.open o C01.get o C01.dec  (DESIGN 5/C01)."""
import time

import z3

from vlib.core import Ob

LEVEL = "other"
EXPLANATION = (
    "Bounded symbolic verification of the real code by SMT (CrossHair/z3 on the repository functions, z3 LIA on the live "
    "construct layouts, z3 FP/BV on array.parse_data through numeric proxies). The property is decomposed into obligations "
    "(assume-guarantee): record framing of the two line-record structs for every stream position and record length; the "
    "metadata pass yields byte_range[i] = (720+i*L+H, 720+(i+1)*L) for every 12<=H<L (unbounded) and the enumerated (n, rpc); "
    "open_image hands exactly those ranges/shape/type code/url/fs to Array; Array loads return exactly file[start_r:stop_r] per "
    "selected row in order; parse_data reproduces the stored big-endian samples as IEEE/integer data for every bit pattern. "
    "Composition: element (r,q) of the loaded array is the sample at byte 720+r*L+H+q*bps."
)
ASSUMPTIONS = [
    "fsspec files obey the SpanFile contract (seek/read return the requested span clipped to the file)",
    "construct parses `struct[k]` sequentially (RecParser contract = obligation C01.rec proved on the real structs)",
    "numpy: np.stack keeps row order, frombuffer/view/field access reinterpret memory without conversion (op table validated on concrete vectors each run)",
    "NaN payload/signalling bits are outside the FP theory (one NaN); checked concretely in validate_stubs",
    "n, rpc enumerated up to the stated bounds; H, L, pixels unbounded symbolic integers",
]
TRUSTED = ["z3 5.1", "CrossHair 0.0.110 (int/bool/list models, path exhaustion)", "vlib.env contract stubs", "vlib.layout class models", "vlib.num op table"]

FUNCS_IO = ["ceos_alos2.sar_image.io:read_metadata", "ceos_alos2.sar_image.io:parse_chunk", "ceos_alos2.sar_image.io:adjust_offsets",
            "ceos_alos2.sar_image.io:_adjust_offset", "ceos_alos2.sar_image.io:read_file_descriptor", "ceos_alos2.utils:to_dict"]
FUNCS_ARR = ["ceos_alos2.array:Array.__post_init__", "ceos_alos2.array:Array.__getitem__", "ceos_alos2.array:compute_selected_ranges",
             "ceos_alos2.array:groupby_chunks", "ceos_alos2.array:merge_chunk_info", "ceos_alos2.array:relocate_ranges",
             "ceos_alos2.array:extract_ranges", "ceos_alos2.array:read_chunk", "ceos_alos2.array:compute_chunk_offsets",
             "ceos_alos2.array:compute_chunk_ranges", "ceos_alos2.array:to_offset_size", "ceos_alos2.array:normalize_chunksize"]


def obligations(tier):
    q = tier == "quick"
    ns = list(range(0, 6)) if q else list(range(0, 11))
    rpcs = list(range(1, 8)) if q else list(range(1, 13))
    obs = [
        Ob("C01.rec", "L", "both line-record structs: record_start=p, data.start=p+H (544/192), data.size=L-H, data.stop=p+L, next record at p+L; "
           "in struct[k] record i starts at p0+sum L_j", ["ceos_alos2.sar_image.signal_data:signal_data_record",
           "ceos_alos2.sar_image.processed_data:processed_data_record", "ceos_alos2.common:record_preamble"],
           bounds="forall p, L_j (unbounded ints); k<=4 unrolled", call="props.c01:ob_rec"),
        Ob("C01.fd", "L", "image file descriptor consumes exactly 720 bytes; counts/shape/type-code fields at their CEOS positions",
           ["ceos_alos2.sar_image.file_descriptor:file_descriptor_record"], bounds="constant layout", call="props.c01:ob_fd"),
        Ob("C01.ceil", "N", "math.ceil(n_records / records_per_chunk) equals the integer ceiling",
           ["ceos_alos2.sar_image.io:read_metadata"], bounds="0<=n<=999999 (6-digit ASCII field), 1<=rpc<2^31, standard rounding model; bit-precise QF_FP at n,rpc<=63",
           outside="bit-precise double division at full range does not terminate in z3/cvc5 (DESIGN 8)", call="props.c01:ob_ceil", wall_timeout=900),
        Ob("C01.dec", "N", "array.parse_data: IU2 value = 256*b0+b1; C*8 (real, imag) = the two stored big-endian binary32 values as IEEE data",
           ["ceos_alos2.array:parse_data", "ceos_alos2.array:raw_dtypes"], bounds="all 2^16 / 2^64 bit patterns per sample, 1..3 samples per buffer",
           outside="NaN payload bits (FP theory has one NaN)", call="props.c01:ob_dec"),
    ]
    for rtype in (10, 11):
        obs.append(Ob(f"C01.meta.t{rtype}", "X", "read_metadata: n records, byte_range[i]=(720+i*L+H, 720+(i+1)*L), each record parsed from its own bytes; "
                      "sequential tiling reads", FUNCS_IO, bounds=f"forall 12<=H<L; n in {ns[0]}..{ns[-1]}, rpc in 1..{rpcs[-1]}",
                      harness="harness/h_image.py", func="meta_ok", params={"ns": ns, "rpcs": rpcs, "rtype": rtype}, timeout=300))
    obs.append(Ob("C01.meta.seq", "X", "one process indexing files of both record types with equal record length and line count, in sequence (10, 11, 10): every file gets "
                  "the byte ranges of its own prefix length - nothing is remembered between files", FUNCS_IO,
                  bounds=f"forall 12<=H1,H2<L; n in {ns[0]}..{min(ns[-1], 3)}, rpc in 1..{min(rpcs[-1], 3)}", harness="harness/h_image.py", func="meta_seq_ok", state_witness=["meta_seq_ok(544, 192, 560)", "meta_seq_ok(192, 544, 560)"],
                  params={"ns": [x for x in ns if x <= 3], "rpcs": [x for x in rpcs if x <= 3]}, timeout=300))
    for tc, name in (("IU2", "IMG-HH-ALOS2290760600-191011-WBDR1.5GUD"), ("C*8", "IMG-HV-ALOS2290760600-191011-WBDR1.1__D-F2")):
        obs.append(Ob(f"C01.open.{tc.replace('*', '')}", "X", "open_image(use_cache=False): Array gets exactly the parsed byte ranges, header shape and type code, "
                      "the image's own url and a filesystem rooted at the product; a full load returns file[start_i:stop_i] of that url per line, in order",
                      FUNCS_IO + FUNCS_ARR + ["ceos_alos2.sar_image:open_image", "ceos_alos2.sar_image.metadata:transform_metadata",
                                              "ceos_alos2.sar_image.metadata:extract_shape", "ceos_alos2.sar_image.metadata:extract_format_type",
                                              "ceos_alos2.sar_image.metadata:transform_line_metadata"],
                      bounds=f"forall 12<=H<L, pixels>=1; n in 0..{min(ns[-1], 4)}, rpc in 1..{min(rpcs[-1], 6)}",
                      harness="harness/h_image.py", func="open_ok",
                      params={"ns": [n for n in ns if n <= 4], "rpcs": [r for r in rpcs if r <= 6], "type_code": tc, "imgname": name}, timeout=300))
    nmax = 4 if q else 6
    for n in range(1, nmax + 1):
        rr = [r for r in rpcs if r <= n + 1]
        obs.append(Ob(f"C01.get.n{n}", "X", "Array[(rows, :)] hands parse_data exactly file[start_r:stop_r] for every selected row, in selection order; "
                      "one open, one read per touched chunk inside the chunk", FUNCS_ARR,
                      bounds=f"forall 0<H<L; n={n}, rpc in 1..{rr[-1]}, monotone row lists of length<={min(n, 3 if q else 4)}",
                      harness="harness/h_image.py", func="rows_ok", params={"n": n, "rpcs": rr, "maxrows": min(n, 3 if q else 4)},
                      timeout=400 if q else 1200))
    obs.append(Ob("C01.e2e", "E", "witness replay through open_alos2: header shape and bit-exact samples (NaN payloads, +-inf, -0.0, 0, 32768, 65535) for 1xN, Nx1 and NxM images, "
                  "rpc below/at/above the line count and 1024, local path / file:// / memory://", ["ceos_alos2.xarray:open_alos2", "ceos_alos2.array:Array.__getitem__", "ceos_alos2.array:parse_data"],
                  bounds="concrete replays (not the deciding step)", call="props.e2e:ob_pixels", wall_timeout=900))
    return obs


# ------------------------------------------------------------------------------------------------ direct obligations


def ob_rec(tier):
    from ceos_alos2.sar_image.processed_data import processed_data_record
    from ceos_alos2.sar_image.signal_data import signal_data_record
    from vlib import layout
    from vlib.smt import Session

    S = Session()
    p = z3.Int("p")
    L = z3.Int("L")
    for name, rec, H in (("signal", signal_data_record, 544), ("processed", processed_data_record, 192)):
        it, end, val = layout.interpret(rec, pos=p, values={("preamble", "record_length"): L})
        S.feasible(f"{name}:feasible", it.constraints + [L > H, p >= 0], show=[p, L])
        claims = z3.And(val["record_start"] == p, val["data"]["start"] == p + H, val["data"]["size"] == L - H,
                        val["data"]["stop"] == p + L, end == p + L)
        S.holds(f"{name}:framing", it.constraints, claims, show=[p, L])
        # every prefix leaf lies inside [p, p+H) and leaves tile it without overlap (sequential)
        pos = p
        tiles = True
        for lf in it.leaves:
            tiles = z3.And(tiles, lf.off == pos)
            pos = lf.off + lf.width
        S.holds(f"{name}:prefix-tiles", it.constraints, z3.And(tiles, pos == p + H), show=[p])
        for k in (1, 2, 3, 4):
            Ls = [z3.Int(f"L{j}") for j in range(k)]
            itk, endk, valk = layout.interpret(rec[k], pos=p, values={(j, "preamble", "record_length"): Ls[j] for j in range(k)})
            cl = [endk == p + sum(Ls)]
            for j in range(k):
                start = p + sum(Ls[:j])
                cl += [valk[j]["record_start"] == start, valk[j]["data"]["start"] == start + H, valk[j]["data"]["stop"] == start + Ls[j]]
            S.holds(f"{name}[{k}]:framing", itk.constraints, z3.And(*cl), show=[p] + Ls)
    res = S.result()
    if res["verdict"] == "violated":
        res["cex"] = {"model": res["cex"], "replay": _replay_rec()}
        if not res["cex"]["replay"]["reproduced"]:
            res["verdict"] = "inconclusive"
            res["reason"] = "layout counterexample did not reproduce with the real construct parser"
        res["finding_key"] = "C01.rec:" + ",".join(sorted(res["cex"]["replay"].get("failed", [])))
    return res


def _replay_rec():
    """parse synthesised records with the real construct structs and compare the located sample areas"""
    from ceos_alos2.sar_image.processed_data import processed_data_record
    from ceos_alos2.sar_image.signal_data import signal_data_record
    from vlib import synth

    failed = []
    for name, rec, H, rt in (("signal", signal_data_record, 544, 10), ("processed", processed_data_record, 192, 11)):
        for L in (H + 8, H + 40):
            try:
                recs = b""
                for i in range(3):
                    b, _ = synth.build(rec, {"preamble": synth.preamble(i + 2, 50, rt, 18, 20, L)}, {})
                    recs += b + bytes(L - len(b)) if len(b) <= L else b
                parsed = rec[3].parse(recs)
                for i, r in enumerate(parsed):
                    if (r.record_start, r.data.start, r.data.stop) != (i * L, i * L + H, (i + 1) * L):
                        failed.append(f"{name}[{i}]@L={L}:{(r.record_start, r.data.start, r.data.stop)}")
            except Exception as e:  # noqa: BLE001
                failed.append(f"{name}@L={L}:{type(e).__name__}")
    return {"reproduced": bool(failed), "failed": failed[:6]}


PINNED_FD = {  # 0-based offset, width  (CEOS SAR data file descriptor; 1-based bytes 181-186, 187-192, 237-244, 249-256, 429-432)
    ("number_of_sar_data_records",): (180, 6),
    ("sar_data_record_length",): (186, 6),
    ("sar_related_data_in_the_record", "number_of_lines_per_dataset"): (236, 8),
    ("sar_related_data_in_the_record", "number_of_data_groups_per_line"): (248, 8),
    ("prefix_suffix_data_locators", "sar_data_format_type_code"): (428, 4),
}


def ob_fd(tier):
    from ceos_alos2.sar_image.file_descriptor import file_descriptor_record
    from vlib import layout
    from vlib.smt import Session

    S = Session()
    it, end, val = layout.interpret(file_descriptor_record)
    S.holds("fd:720", it.constraints, end == 720 if z3.is_expr(end) else z3.BoolVal(end == 720))
    by = {lf.path: lf for lf in it.leaves}
    for path, (off, w) in PINNED_FD.items():
        lf = by.get(path)
        ok = lf is not None and z3.is_true(z3.simplify(z3.And(lf.off == off, lf.width == w))) if lf is not None else False
        S.holds("fd:" + ".".join(path), [], z3.BoolVal(bool(ok)))
        if not ok:
            S.failed[-1]["model"] = {"leaf": repr(lf), "pinned": (off, w)}
    res = S.result()
    if res["verdict"] == "violated":
        res["finding_key"] = "C01.fd:" + ",".join(f["label"] for f in res["cex"])
        res["cex"] = {"model": res["cex"], "replay": _replay_fd()}
        if not res["cex"]["replay"]["reproduced"]:
            res.update(verdict="inconclusive", reason="file descriptor counterexample did not reproduce")
    return res


def _replay_fd():
    """hand-written 720-byte descriptor (independent of the repository structs) parsed by the real struct"""
    from ceos_alos2.sar_image.file_descriptor import file_descriptor_record

    raw = bytearray(b" " * 720)
    raw[0:12] = (1).to_bytes(4, "big") + bytes([50, 192, 18, 18]) + (720).to_bytes(4, "big")
    # every column of the counts carries a digit: a column moved between neighbouring fields changes a value
    raw[180:186] = b"123456"
    raw[186:192] = b"987654"
    raw[236:244] = b"12345678"
    raw[248:256] = b"87654321"
    raw[428:432] = b"IU2 "
    failed = []
    try:
        h = file_descriptor_record.parse(bytes(raw))
        got = (h.number_of_sar_data_records, h.sar_data_record_length, h.sar_related_data_in_the_record.number_of_lines_per_dataset,
               h.sar_related_data_in_the_record.number_of_data_groups_per_line, h.prefix_suffix_data_locators.sar_data_format_type_code)
        if got != (123456, 987654, 12345678, 87654321, "IU2"):
            failed.append(repr(got))
    except Exception as e:  # noqa: BLE001
        failed.append(type(e).__name__)
    return {"reproduced": bool(failed), "failed": failed}


def ob_ceil(tier):
    """the float cut of read_metadata: math.ceil(n / rpc) == ceil_int(n, rpc).
    (1) rounding-model lemma over reals for the full admissible range; (2) bit-precise FP query on a small range."""
    import ast
    import inspect

    from ceos_alos2.sar_image import io as IO
    from vlib.smt import Session

    # the encoding is only valid while the source still computes math.ceil(a / b): check it on the AST of the real function
    src = inspect.getsource(IO.read_metadata)
    tree = ast.parse(src)
    found = [n for n in ast.walk(tree) if isinstance(n, ast.Call) and ast.unparse(n.func) == "math.ceil"
             and isinstance(n.args[0], ast.BinOp) and isinstance(n.args[0].op, ast.Div)]
    uses_int = any(isinstance(n, ast.BinOp) and isinstance(n.op, ast.FloorDiv) for n in ast.walk(tree))
    if not found:
        if uses_int or "ceil" not in src:
            return {"verdict": "discharged", "queries": 0, "solver_s": 0.0,
                    "note": "read_metadata no longer uses float division for the chunk count; integer arithmetic is decided by C01.meta"}
        return {"verdict": "inconclusive", "reason": "read_metadata computes the chunk count in a form this encoding does not cover"}
    S = Session(timeout_ms=300000)
    n, r, k = z3.Ints("n r k")
    q, d, f = z3.Reals("q d f")
    eps = z3.RealVal(2) ** -53
    dom = [n >= 0, n <= 999999, r >= 1, r < 2**31]
    # fl(n/r) = (n/r)(1+d), |d| <= 2^-53; when r divides n the quotient is an integer < 2^53, representable, hence exact
    model = [q * z3.ToReal(r) == z3.ToReal(n), d >= -eps, d <= eps, f == q * (1 + d), z3.Implies(n == k * r, f == q)]
    ceil_int = [(k - 1) * r < n, n <= k * r]  # k = ceil(n/r)
    S.feasible("ceil:model-feasible", dom + model + ceil_int, show=[n, r, k])
    # ceil(f) == k  <=>  k-1 < f <= k
    S.holds("ceil:rounding-model", dom + model + ceil_int, z3.And(f > z3.ToReal(k) - 1, f <= z3.ToReal(k)), show=[n, r, k, d])
    # bit-precise cross-check on a small range
    bound = 63 if tier == "quick" else 255
    fn, fr = z3.BitVec("fn", 32), z3.BitVec("fr", 32)
    D = z3.Float64()
    x = z3.fpDiv(z3.RNE(), z3.fpSignedToFP(z3.RNE(), fn, D), z3.fpSignedToFP(z3.RNE(), fr, D))
    c = z3.fpRoundToIntegral(z3.RTP(), x)
    ci = z3.fpToSBV(z3.RTZ(), c, z3.BitVecSort(32))
    want = z3.UDiv(fn + fr - 1, fr)
    S.holds("ceil:bit-precise", [z3.ULE(fn, bound), z3.ULE(fr, bound), fr != 0], ci == want, show=[fn, fr])
    res = S.result()
    if res["verdict"] == "violated":
        import math

        m = res["cex"][0]["model"]
        res["finding_key"] = "C01.ceil"
        try:
            a, b = int(m.get("n", m.get("fn", 0))), int(m.get("r", m.get("fr", 1)))
            if math.ceil(a / b) == -(-a // b):
                res.update(verdict="inconclusive", reason=f"ceil counterexample {a}/{b} does not reproduce in CPython")
        except Exception:  # noqa: BLE001
            res.update(verdict="inconclusive", reason="ceil counterexample not replayable")
    return res


def ob_dec(tier):
    """run the real array.parse_data on proxy buffers of symbolic bytes"""
    import numpy as np

    from ceos_alos2 import array as A
    from vlib import num
    from vlib.smt import Session

    S = Session()
    orig = A.np
    out = {}
    try:
        for tc, width in (("IU2", 2), ("C*8", 8)):
            for count in (1, 2, 3):
                bs = [z3.BitVec(f"b_{tc}_{count}_{i}", 8) for i in range(width * count)]
                shim = num.NPShim()
                A.np = shim
                try:
                    res = A.parse_data(bs, tc)
                finally:
                    A.np = orig
                if not isinstance(res, num.PArr):
                    return {"verdict": "inconclusive", "reason": f"parse_data returned {type(res)} for proxy input"}
                vals = res.values()
                if len(vals) != count:
                    S.failed.append({"label": f"{tc}:count", "model": {"got": len(vals), "want": count}})
                    continue
                for e, v in enumerate(vals):
                    b = bs[e * width:(e + 1) * width]
                    if tc == "IU2":
                        want = z3.ZeroExt(48, z3.Concat(b[0], b[1]))
                        if v[0] in "ui" and v[1].size() <= 64:
                            ext = z3.ZeroExt if v[0] == "u" else z3.SignExt
                            claim = (ext(64 - v[1].size(), v[1]) if v[1].size() < 64 else v[1]) == want  # equal as integers
                        else:
                            claim = z3.BoolVal(False)
                    else:
                        wr = z3.fpBVToFP(z3.Concat(*b[:4]), num.F32)
                        wi = z3.fpBVToFP(z3.Concat(*b[4:]), num.F32)
                        claim = z3.And(v[1] == wr, v[2] == wi) if v[0] == "c" else z3.BoolVal(False)
                    S.feasible(f"{tc}x{count}[{e}]:feasible", [b[0] == 0x3F], show=b)
                    S.holds(f"{tc}x{count}[{e}]", [], claim, show=b)
                out[tc] = str(res.dtype)
    except num.Unsupported as e:
        return {"verdict": "inconclusive", "reason": f"unsupported numpy operation in parse_data: {e}"}
    # unknown type codes must be rejected, not decoded
    try:
        A.parse_data(b"\0\0", "XX")
        S.failed.append({"label": "unknown-type-code accepted", "model": {}})
    except ValueError:
        pass
    res = S.result(result_dtypes=out)
    if res["verdict"] == "violated":
        rep = []
        for f in res["cex"]:
            m = f["model"]
            tc = "IU2" if "IU2" in f["label"] else "C*8"
            width = 2 if tc == "IU2" else 8
            names = sorted((k for k in m if k.startswith(f"b_{tc}")), key=lambda s: int(s.rsplit("_", 1)[1]))
            if not names:
                continue
            raw = bytes(int(m[k]) for k in names)
            raw = raw[: len(raw) // width * width]
            got = A.parse_data(raw, tc)
            if tc == "IU2":
                want = np.frombuffer(raw, ">u2")
                same = [int(v) for v in np.asarray(got).ravel()] == [int(v) for v in want]  # equal as integers (no cast that could mask a sign)
            else:
                g = np.asarray(got).astype("complex64")
                w = np.frombuffer(raw, ">f4").astype("float32")
                gb = np.stack([g.real, g.imag], axis=-1).astype("<f4").tobytes()
                wb = w.astype("<f4").tobytes()
                nan_ok = np.array_equal(np.isnan(np.frombuffer(gb, "<f4")), np.isnan(w))
                same = nan_ok and all(x == y or (np.isnan(a) and np.isnan(c)) for x, y, a, c in zip(
                    np.frombuffer(gb, "<u4"), np.frombuffer(wb, "<u4"), np.frombuffer(gb, "<f4"), w))
            rep.append({"bytes": raw.hex(), "type_code": tc, "got": repr(got), "reproduced": not same})
        res["cex"] = {"model": res["cex"], "replay": rep}
        if not any(r["reproduced"] for r in rep):
            res.update(verdict="inconclusive", reason="decode counterexample did not reproduce on real numpy")
        res["finding_key"] = "C01.dec:" + ",".join(sorted({r["type_code"] for r in rep if r["reproduced"]}))
    return res


def validate_stubs():
    """conformance of the op table of vlib.num with real numpy on concrete vectors (incl. +-0, +-inf, NaN)"""
    import struct

    import numpy as np

    from ceos_alos2 import array as A
    from vlib import num

    assert np.dtype("=f4").byteorder in "=<" and np.dtype("<f4") == np.dtype("f4"), "little-endian host assumed"
    specials = [0.0, -0.0, 1.0, -1.5, float("inf"), float("-inf"), float("nan"), 3.4e38, 1e-45]
    checked = 0
    rng = np.random.default_rng(int(__import__("os").environ.get("VERIF_SEED", "0")))
    pairs = [(a, b) for a in specials for b in specials] + [tuple(rng.normal(size=2) * 10.0 ** rng.integers(-30, 30)) for _ in range(40)]
    bvars = [z3.BitVec(f"vb{i}", 8) for i in range(8)]
    orig = A.np
    for re_, im in pairs:
        raw = struct.pack(">ff", re_, im)
        real = A.parse_data(raw, "C*8")
        A.np = num.NPShim()
        try:
            prox = A.parse_data(bvars, "C*8").values()[0]
        finally:
            A.np = orig
        got = num.concrete(prox, list(zip(bvars, raw)))
        rv = np.asarray(real).astype("complex64")[0]
        want = struct.unpack("<II", np.array([rv.real, rv.imag], dtype="<f4").tobytes())
        for g, w, f in zip(got, want, (rv.real, rv.imag)):
            if np.isnan(f):
                assert (g & 0x7F800000) == 0x7F800000 and (g & 0x7FFFFF), ("nan mismatch", re_, im)
            else:
                assert g == w, ("proxy/numpy mismatch", re_, im, hex(g), hex(w))
        checked += 1
    # integer samples: proxy execution of the real function == real execution of the real function (whatever dtype it uses)
    for x in (0, 1, 255, 256, 65535, 0x1234, 0x8000):
        raw = struct.pack(">H", x)
        real = np.asarray(A.parse_data(raw, "IU2"))
        A.np = num.NPShim()
        try:
            prox = A.parse_data(bvars[:2], "IU2").values()[0]
        finally:
            A.np = orig
        got = num.concrete(prox, list(zip(bvars[:2], raw)))[0]
        assert got == int(real[0]) % (1 << (8 * real.dtype.itemsize)), ("proxy/numpy mismatch", x, got, real)
        checked += 1
    # stub stack raises like numpy
    try:
        np.stack([], axis=0)
        raise AssertionError("np.stack([]) did not raise")
    except ValueError:
        pass
    return {"num_op_table_vectors": checked, "np.stack([]) raises": True}
