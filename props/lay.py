"""shared direct obligations: live construct layouts vs the pinned layout table and the independent anchors (engine L)"""
import json
import os

import z3

ROOT = os.path.dirname(os.path.dirname(os.path.abspath(__file__)))


def ob_layout(tier, names):
    """every leaf of the live structs: offset / width equal the pinned linear terms for all admissible structure parameters
    (solver), field list and kind chains (adapter classes, factors, units, enum tables, binary formats) identical"""
    from vlib import layoutspec as LS
    from vlib.smt import Session

    S = Session(cross=(tier == "thorough" and len(names) <= 3))
    spec = LS.load()
    literal = []
    for name in names:
        try:
            literal += [dict(x, struct=name) for x in LS.compare(name, S, spec)]
        except Exception as e:  # noqa: BLE001
            from vlib import layout

            if isinstance(e, (layout.Unsupported, z3.Z3Exception)):
                return {"verdict": "inconclusive", "reason": f"{name}: {type(e).__name__}: {e}"}
            raise
    res = S.result(structs=list(names), leaves={n: len(spec[n]["leaves"]) for n in names})
    if literal:
        res["verdict"] = "violated" if res["verdict"] != "inconclusive" else res["verdict"]
        res.setdefault("cex", [])
        res["cex"] = list(res["cex"]) + literal[:8]
    if res["verdict"] == "violated":
        rep = replay_layout(names, res["cex"])
        res["cex"] = {"model": res["cex"][:8], "replay": rep}
        if not rep["reproduced"]:
            res.update(verdict="inconclusive", reason="layout difference did not reproduce with the real parser")
        res["finding_key"] = "layout:" + ",".join(sorted(rep.get("fields", [])))[:300]
    return res


def replay_layout(names, cex):
    """write a probe file according to the PINNED layout (distinct content per field, concrete structure parameters), parse it
    with the real parser and report the fields whose parsed value is not what was written at their pinned position"""
    from vlib import specwriter

    fields = []
    detail = []
    for name in names:
        try:
            bad = specwriter.roundtrip(name)
        except Exception as e:  # noqa: BLE001
            bad = [{"field": f"<{name}: parser raised {type(e).__name__}: {str(e)[:120]}>"}]
        fields += [b["field"] for b in bad]
        detail += bad[:4]
    return {"reproduced": bool(fields), "fields": fields[:12], "detail": detail[:6]}


def ob_anchors(tier, scope):
    """byte positions known independently of the repository (CEOS / JAXA format descriptions) - pinned and live layout both agree"""
    from vlib import layoutspec as LS
    from vlib.smt import Session

    S = Session()
    A = json.load(open(os.path.join(ROOT, "spec", "anchors.json")))
    spec = LS.load()
    if scope == "leader":
        it, end, dom = LS.live("sar_leader")
        assumptions = list(it.constraints) + list(dom)
        first = {}
        for lf in it.leaves:
            first.setdefault(lf.path[0], lf.off)
        starts = {"file_descriptor": z3.IntVal(0), "dataset_summary": z3.IntVal(720), "map_projection": z3.IntVal(4816)}
        c, Latt = z3.Int("c"), z3.Int("Latt")
        starts["platform_position"] = 4816 + 1620 * c
        starts["attitude"] = starts["platform_position"] + 4680
        starts["radiometric_data"] = starts["attitude"] + Latt
        starts["data_quality_summary"] = starts["radiometric_data"] + 9860
        S.feasible("anchors:admissible", assumptions, show=[c, Latt])
        for rec, want in starts.items():
            idx = [i for lf in it.leaves if lf.path[0] == rec for i in lf.idx]
            S.holds(f"start:{rec}", assumptions + [x[0] == 0 for x in idx], first[rec] == want, show=[c, Latt])
        by = {tuple(str(p) for p in lf.path): lf for lf in it.leaves}
        for rec, path, pos1 in A["sar_leader"]["fields"]:
            lf = by.get((rec,) + tuple(path)) or by.get((rec, "*") + tuple(path))
            if lf is None:
                S.failed.append({"label": f"anchor {rec}.{'.'.join(path)} missing in the live layout", "model": {}})
                continue
            extra = [x[0] == 0 for x in lf.idx]
            S.holds(f"anchor:{rec}.{'.'.join(path)}@{pos1}", assumptions + extra, lf.off == starts[rec] + (pos1 - 1), show=[c, Latt])
            pinned = LS.field_offset("sar_leader", [str(p) for p in lf.path], spec)
            S.holds(f"anchor-pinned:{rec}.{'.'.join(path)}", assumptions + extra, LS.build(pinned["const"], pinned["coeffs"]) == starts[rec] + (pos1 - 1), show=[c])
    elif scope == "image":
        for name, H in (("signal_data_record", A["image"]["signal_prefix"]), ("processed_data_record", A["image"]["processed_prefix"])):
            it, end, dom = LS.live(name)
            data = [lf for lf in it.leaves if lf.path[-1] == "data" or lf.path[0] == "data"]
            S.feasible(f"{name}:admissible", list(it.constraints) + dom, show=[])
            last_prefix = max((lf for lf in it.leaves if lf not in data), key=lambda lf: z3.simplify(lf.off + 0).as_long() if not isinstance(lf.off, int) else lf.off)
            S.holds(f"{name}:prefix={H}", list(it.constraints) + dom, last_prefix.off + last_prefix.width == H, show=[])
        it, end, dom = LS.live("image_file_descriptor")
        S.holds("image_file_descriptor:720", list(it.constraints), (end if z3.is_expr(end) else z3.IntVal(end)) == A["image"]["descriptor_size"], show=[])
    elif scope == "volume":
        it, end, dom = LS.live("volume_directory")
        nfp = z3.Int("nfp")
        S.feasible("volume:admissible", list(it.constraints) + dom, show=[nfp])
        S.holds("volume:size", list(it.constraints) + dom, end == A["volume_directory"]["record_size"] * (2 + nfp), show=[nfp])
        txt = [lf for lf in it.leaves if lf.path[0] == "text_record"]
        S.holds("volume:text-record-start", list(it.constraints) + dom, txt[0].off == 360 * (1 + nfp), show=[nfp])
    res = S.result()
    if res["verdict"] == "violated":
        res["finding_key"] = f"anchors:{scope}:" + ",".join(f["label"] for f in res["cex"])[:200]
    return res
