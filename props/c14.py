"""C14 - summary parsing is total on well-formed text, reports every malformed line (DESIGN 5/C14)."""
import z3

from vlib.core import Ob

LEVEL = "other"
EXPLANATION = (
    "Line grammar (engine R): the compiled entry_re is executed by a bounded priority matcher over K symbolic code points at concrete "
    "positions, which reproduces Python's backtracking order (lazy groups, fullmatch); z3 shows (a) the accepted lines are exactly the "
    "lines of the independent grammar - three ASCII letters, '_', a first '=\"' at position >= 4, a closing quote as last character, no "
    "newline - and (b) the captures are (letters, text before the FIRST '=\"', text between it and the FINAL quote), so values may "
    "contain spaces, '=' and quotes; every solver string is pushed through the real parse_line. Aggregation (CrossHair on the real "
    "parse_summary with a symbolic validity oracle per line): malformed lines - including blank lines before and after the entries, LF or "
    "CRLF, with or without a final newline - raise ONE ExceptionGroup naming exactly the offending line numbers; otherwise the merged "
    "mapping holds every entry under its lower-cased section, independent of line order. Sections (CrossHair on the real transform_* with "
    "symbolic texts and int()/float() uninterpreted): every documented conversion hands the right text to the right converter, dates "
    "are re-punctuated by slicing, empty checks become 'N/A', lookups use the code tables, file roles follow the NN numbering and shapes "
    "are (pixels, lines) per index under five permutations of the lines."
)
ASSUMPTIONS = [
    "lines up to K code points (16 quick / 24 thorough); longer lines outside the claim",
    "str.splitlines / bytes.decode are CPython's (CRLF handling trusted; exercised in the aggregation obligation with concrete separators)",
    "int()/float() uninterpreted in the section transformers; ids are decoded by C15",
    "<= 3 (quick) / 4 (thorough) entry lines + up to 3 blank lines in the aggregation obligation",
]
TRUSTED = ["z3 5.1", "CrossHair 0.0.110", "vlib.rx bounded matcher (every model string is replayed on the real regex)"]
SF = ["ceos_alos2.summary:parse_summary", "ceos_alos2.summary:with_lineno"]
TF = ["ceos_alos2.summary:transform_ordering_info", "ceos_alos2.summary:transform_scene_spec", "ceos_alos2.summary:transform_product_spec",
      "ceos_alos2.summary:transform_image_info", "ceos_alos2.summary:transform_product_info", "ceos_alos2.summary:transform_autocheck",
      "ceos_alos2.summary:transform_result_info", "ceos_alos2.summary:transform_label_info", "ceos_alos2.summary:categorize_filenames",
      "ceos_alos2.summary:to_isoformat", "ceos_alos2.summary:reformat_date"]


def obligations(tier):
    to = 600 if tier == "quick" else 1800
    return [
        Ob("C14.line", "R", "entry_re under fullmatch accepts exactly the lines of the independent grammar and captures (section, text before the first '=\"', text up to the final quote)",
           ["ceos_alos2.summary:entry_re", "ceos_alos2.summary:parse_line"], bounds=f"forall lines of <= {16 if tier == 'quick' else 24} unicode code points",
           call="props.c14:ob_line", kwargs={"K": 16 if tier == "quick" else 24}, wall_timeout=1800),
        Ob("C14.agg", "X", "malformed lines (also blank lines at the start/end; LF/CRLF; final newline or not) -> one ExceptionGroup naming exactly their numbers; else the merged mapping",
           SF, bounds=f"forall validity vectors of <= {3 if tier == 'quick' else 4} lines, 0..2 leading and 0..1 trailing blank lines, separators", harness="harness/h_summary.py",
           func="agg_ok", params={"maxlines": 3 if tier == "quick" else 4}, timeout=to),
        Ob("C14.order", "X", "the merged mapping is independent of line order within and across sections; values are carried unchanged", SF,
           bounds="all 6 orders of 3 entries; forall value texts |s|<=2", harness="harness/h_summary.py", func="order_ok", timeout=to),
        Ob("C14.sec", "X", "section transformers: documented converter per key (int / float / passthrough / lookup / date re-punctuation / 'N/A'), independent of key order", TF,
           bounds="forall pass-through texts |s|<=2, 8-digit dates, both key orders; 4 rows of integer / float spellings (symbolic index)", harness="harness/h_summary.py", func="sections_ok", timeout=to),
        Ob("C14.pinfo", "X", "product information: file roles by NN numbering (first, second, middle, last), shapes (pixels, lines) per index, other keys converted - for permuted lines", TF,
           bounds="5 permutations x reversed; 3..6 product files; 5 rows of count spellings (symbolic index)", harness="harness/h_summary.py", func="product_info_ok", timeout=to),
        Ob("C14.codes", "R", "coded summary values (Pds_ProductID components, ResamplingMethod, ProcessFacility): the live code tables, as functions code -> meaning, equal the "
           "documented tables (pinned in spec/code_tables.json) on every documented code and define no other code; each entry replayed through the real section transformers",
           ["ceos_alos2.decoders:observation_modes", "ceos_alos2.decoders:lookup", "ceos_alos2.summary:transform_product_spec", "ceos_alos2.summary:transform_label_info"],
           bounds="forall code strings (z3 string theory; the tables are finite maps read from the live module on every run)", call="props.c14:ob_codes"),
        Ob("C14.e2e", "E", "witness replay through open_summary: a full summary in 4 line orders x LF/CRLF gives the same tree; corrupted lines (blank first line, missing quote, "
           "bad section, trailing garbage) are all named in one ExceptionGroup", ["ceos_alos2.summary:open_summary", "ceos_alos2.summary:transform_summary"],
           bounds="concrete replays (not the deciding step)", call="props.c14:ob_e2e"),
    ]


def ob_line(tier, K=16):
    from ceos_alos2 import summary as S
    from vlib import rx
    from vlib.smt import Session

    S_ = Session(timeout_ms=600000)
    how = rx.how_matched(S.parse_line, "entry_re", probe='Pds_A="b"')
    if how != "fullmatch":
        return {"verdict": "inconclusive", "reason": f"parse_line applies entry_re with {how}; the encoding covers fullmatch"}
    bm = rx.BoundedMatcher(S.entry_re, K)
    alts = bm.fullmatch()
    c, n = bm.c, bm.n
    dom = bm.domain()
    lit = bm.lit

    def letter(x):
        return z3.Or(z3.And(z3.UGE(x, lit(65)), z3.ULE(x, lit(90))), z3.And(z3.UGE(x, lit(97)), z3.ULE(x, lit(122))))

    # independent grammar
    def occ(j):
        return z3.And(n > j + 1, c[j] == lit(61), c[j + 1] == lit(34)) if j + 1 < K else z3.BoolVal(False)

    head = z3.And(n >= 4, letter(c[0]), letter(c[1]), letter(c[2]), c[3] == lit(95))
    nonl = z3.And(*[z3.Implies(n > i, c[i] != lit(10)) for i in range(K)])
    last_quote = z3.Or(*[z3.And(n == m, c[m - 1] == lit(34)) for m in range(1, K + 1)])
    first = {j: z3.And(occ(j), *[z3.Not(occ(jj)) for jj in range(4, j)]) for j in range(4, K)}
    ref_by_j = {j: z3.And(head, nonl, last_quote, first[j], n >= j + 3) for j in range(4, K)}
    ref_valid = z3.Or(*ref_by_j.values())
    impl_valid = z3.Or(*[cond for cond, _ in alts]) if alts else z3.BoolVal(False)
    S_.feasible("line:feasible", dom + [ref_valid, n == K], show=[n])
    S_.holds("line:accepts-exactly-the-grammar", dom, impl_valid == ref_valid, show=[n])
    # captures of the alternative python takes (first whose condition holds)
    earlier = []
    for i, (cond, caps) in enumerate(alts):
        taken = z3.And(cond, *[z3.Not(e) for e in earlier])
        earlier.append(cond)
        ks, ke = caps.get("keyword", (None, None))
        vs, ve = caps.get("value", (None, None))
        ss, se = caps.get("section", (None, None))
        if ke is None or ke not in ref_by_j or (ss, se) != (0, 3) or ks != 4 or vs != ke + 2:
            S_.holds(f"line:alt{i}:shape", dom, z3.Not(taken), show=[n])
            continue
        # when taken: the keyword must end at the FIRST '="' and the value must run to the final quote
        S_.holds(f"line:alt{i}:captures", dom + [taken], z3.And(first[ke], n == ve + 1), show=[n])
    res = S_.result(alternatives=len(alts), K=K)
    # replay: every string the solver produced goes through the real parse_line and a plain-python reference
    samples = []
    for f in res.get("cex", []) if res["verdict"] == "violated" else []:
        samples.append(f)
    bad = []
    sol = z3.Solver()
    sol.add(*dom)
    sol.add(z3.Xor(impl_valid, ref_valid))
    strings = []
    if res["verdict"] == "violated":
        if sol.check() == z3.sat:
            strings.append(bm.model_string(sol.model()))
        sol2 = z3.Solver()
        sol2.add(*dom)
        earlier = []
        for cond, caps in alts:
            taken = z3.And(cond, *[z3.Not(e) for e in earlier])
            earlier.append(cond)
            ke, ve = caps.get("keyword", (0, 0))[1], caps.get("value", (0, 0))[1]
            sol2.push()
            sol2.add(taken, z3.Not(z3.And(first.get(ke, z3.BoolVal(False)), n == ve + 1)))
            if sol2.check() == z3.sat:
                strings.append(bm.model_string(sol2.model()))
            sol2.pop()
            if len(strings) > 4:
                break
    strings += ['Pds_A="b"', 'Pds_A="b=" c"', 'Pd_A="b"', 'Pds_A=b"', 'Pds_A="b" ', 'Pds_="="=""', 'Pds_A=""', "Pds_A=\"x\ny\"", ' Pds_A="b"', 'Pds_A="b']
    for x in strings:
        want = _reference(x)
        try:
            got = S.parse_line(x)
        except ValueError:
            got = None
        if got != want:
            bad.append({"line": x, "parse_line": got, "reference": want})
    if bad:
        res.update(verdict="violated", cex={"model": res.get("cex"), "replay": bad[:4]}, finding_key="C14.line:" + ";".join(repr(b["line"]) for b in bad[:3]))
    elif res["verdict"] == "violated":
        res.update(verdict="inconclusive", reason="grammar counterexample did not reproduce on the real regex")
    res["replayed_strings"] = len(strings)
    return res


def _table_fn(table, s, default):
    t = z3.StringVal(default)
    for k, v in table.items():
        t = z3.If(s == z3.StringVal(k), z3.StringVal(v), t)
    return t


def ob_codes(tier):
    """live tables vs documented tables as functions over all strings (undefined = a reserved marker), decided by z3; then every table
    entry goes through the real section transformers"""
    from ceos_alos2 import decoders as D
    from ceos_alos2 import summary as SM
    from props.c15 import pinned
    from vlib.smt import Session

    S = Session()
    P = pinned()
    s = z3.String("code")
    UNDEF = "\x00undefined"
    names = ["observation_modes", "observation_directions", "processing_levels", "processing_options", "map_projections", "orbit_directions",
             "resampling_methods", "processing_facilities"]
    cex = []
    for name in names:
        live = getattr(D, name, None)
        if not isinstance(live, dict) or not all(isinstance(k, str) and isinstance(v, str) for k, v in live.items()):
            S.failed.append({"label": f"codes:{name}:not-a-str-table", "model": {"live": repr(live)[:100]}})
            continue
        ok = S.holds(f"codes:{name}", [], _table_fn(live, s, UNDEF) == _table_fn(P[name], s, UNDEF), show=[s])
        if ok is False:
            cex.append((name, S.failed[-1]["model"]["code"]))
    res = S.result()
    # replay: every documented code through the real transformers
    bad = []
    base = "WWDR1.5GUA"

    def pid_with(group, code):
        parts = {"observation_modes": (0, 3), "observation_directions": (3, 4), "processing_levels": (4, 7), "processing_options": (7, 8), "map_projections": (8, 9),
                 "orbit_directions": (9, 10)}
        a, b = parts[group]
        return base[:a] + code + base[b:]

    keys = {"observation_modes": "observation_mode", "observation_directions": "observation_direction", "processing_levels": "processing_level",
            "processing_options": "processing_option", "map_projections": "map_projection", "orbit_directions": "orbit_direction"}
    n = 0
    for name in names:
        for code, meaning in P[name].items():
            n += 1
            try:
                if name == "resampling_methods":
                    got = SM.transform_product_spec({"ResamplingMethod": code}).attrs.get("ResamplingMethod")
                elif name == "processing_facilities":
                    got = SM.transform_label_info({"ProcessFacility": code}).attrs.get("ProcessFacility")
                else:
                    attrs = SM.transform_product_spec({"ProductID": pid_with(name, code)}).attrs
                    got = attrs.get(keys[name], attrs.get("ProductID", {}).get(keys[name]) if isinstance(attrs.get("ProductID"), dict) else None)
            except Exception as e:  # noqa: BLE001
                got = f"{type(e).__name__}: {e}"
            if got != meaning:
                bad.append({"table": name, "code": code, "documented": meaning, "summary gives": got})
    res["replays"] = n
    if bad:
        res.update(verdict="violated", cex={"solver": cex, "replay": bad[:4]}, finding_key="C14.codes:" + ",".join(sorted({b["table"] + "/" + b["code"] for b in bad}))[:200])
    elif res["verdict"] == "violated":
        res.update(verdict="inconclusive", reason="table difference did not reproduce through the section transformers", cex=cex)
    return res


def _reference(x):
    """plain-python reference of the documented line grammar"""
    if len(x) < 4 or not all(("a" <= ch <= "z") or ("A" <= ch <= "Z") for ch in x[:3]) or x[3] != "_" or "\n" in x:
        return None
    j = x.find('="', 4)
    if j < 0 or len(x) < j + 3 or x[-1] != '"':
        return None
    return {"section": x[:3], "keyword": x[4:j], "value": x[j + 2:-1]}


def ob_e2e(tier):
    import random

    from ceos_alos2.summary import open_summary
    from ceos_alos2.testing import assert_identical  # noqa: F401
    from vlib import synth, tokens as T

    files = ["VOL-X-Y", "LED-X-Y"] + [f"IMG-{p}-{synth.SCENE}-WBDR1.5GUD" for p in ("HH", "HV", "VV")] + ["TRL-X-Y"]
    lines = synth.summary_lines(files, 7, 5, "WBDR1.5GUD") + ['Pdi_NoOfPixels_2="70"', 'Pdi_NoOfLines_2="50"', 'Rad_Note="a = \\"b\\" c"'.replace("\\", ""),
                                                              'Rad_Station="Troms\u00f8 \u00c5lesund \u4e2d"']
    ref = None
    bad = []
    runs = 0
    rng = random.Random(0)
    for order in range(4):
        ls = list(lines)
        if order == 1:
            ls.reverse()
        elif order > 1:
            rng.shuffle(ls)
        for sep in ("\n", "\r\n"):
            runs += 1
            try:
                g = open_summary({"summary.txt": (sep.join(ls) + sep).encode()}, "summary.txt")
            except Exception as e:  # noqa: BLE001
                bad.append({"order": order, "sep": repr(sep), "error": f"{type(e).__name__}: {str(e)[:100]}"})
                continue
            flat = sorted((T.loc_key(loc), repr(v)) for loc, v in T.flatten(g) if loc[1] not in ("members", "attrnames"))
            if ref is None:
                ref = flat
                files_attr = g["product_information"]["data_files"].attrs
                if files_attr["volume_directory"] != files[0] or files_attr["sar_leader"] != files[1] or list(files_attr["sar_imagery"]) != files[2:-1]:
                    bad.append({"what": "file roles", "got": dict(files_attr)})
                if g["product_information"]["shapes"].attrs != {"1": (7, 5), "2": (70, 50)}:
                    bad.append({"what": "shapes", "got": dict(g["product_information"]["shapes"].attrs)})
                if g["result_information"].attrs.get("Note") != 'a = "b" c':
                    bad.append({"what": "value with quotes/equals", "got": g["result_information"].attrs.get("Note")})
                if g["result_information"].attrs.get("Station") != "Troms\u00f8 \u00c5lesund \u4e2d":
                    bad.append({"what": "free text outside ASCII (the file is UTF-8 text)", "got": g["result_information"].attrs.get("Station")})
            elif flat != ref:
                bad.append({"order": order, "sep": repr(sep), "what": "tree depends on line order / line ending", "first": [x for x in zip(flat, ref) if x[0] != x[1]][:2]})
    # corrupted lines: all of them named, no others
    corrupt = {0: "", 3: 'Pds_ProductID="WBDR1.5GUD', 5: 'P1s_X="1"', len(lines) - 1: lines[-1] + " "}
    ls = [corrupt.get(i, ln) for i, ln in enumerate(lines)]
    runs += 1
    try:
        open_summary({"summary.txt": ("\n".join(ls) + "\n").encode()}, "summary.txt")
        bad.append({"what": "corrupted summary opened without error"})
    except BaseException as e:  # noqa: BLE001
        subs = getattr(e, "exceptions", None)
        if subs is None:
            bad.append({"what": f"not an ExceptionGroup: {type(e).__name__}: {str(e)[:80]}"})
        else:
            nums = sorted(int(x.args[0].split(":")[0][len("line "):]) for x in subs)
            if nums != sorted(corrupt) and nums != [k + 1 for k in sorted(corrupt)]:
                bad.append({"what": "reported line numbers", "got": nums, "corrupted": sorted(corrupt)})
    res = {"verdict": "violated" if bad else "discharged", "queries": runs, "replays": runs}
    if bad:
        res["cex"] = bad[:3]
        res["finding_key"] = "C14.e2e:" + ";".join(str(b.get("what", b.get("error")))[:50] for b in bad[:3])
    return res
