"""C09 - a crash or concurrent writer during cache creation never poisons later opens (DESIGN 5/C09)."""
from props import c07
from vlib.core import Ob

LEVEL = "other"
EXPLANATION = (
    "The states an interrupted cache write can leave are exactly the prefixes of the index document. CrossHair/z3 runs the real "
    "open_image / read_cache / decode / create_cache on the world model of C07 with BOTH locations symbolic over {absent, complete, torn "
    "after k characters} for a symbolic cut 0 <= k < len (len symbolic, unbounded), the json contract raising JSONDecodeError on every "
    "strict prefix (lemma validated on every prefix of a real document each run). For every state: an open with default options, and with "
    "any (use_cache, create_cache), returns the uncached group and never raises; create_cache=True leaves a complete index whose decode "
    "equals the group; afterwards a default open is served from it without touching the image. Counterexamples are replayed through "
    "open_alos2 on a synthesised product whose index files are truncated at the corresponding fraction."
)
ASSUMPTIONS = c07.ASSUMPTIONS + [
    "a crash / full disk / concurrent writer leaves a prefix of the document (write_text is a sequential write of one string); real SIGKILLs are outside this technique",
    "a strict prefix of the index document is never a JSON document (top-level object closes at the last character; checked on all prefixes of a real document)",
]
TRUSTED = c07.TRUSTED


def obligations(tier):
    to = 300 if tier == "quick" else 900
    obs = []
    insts = [(2, [r], [1], "IU2", None) for r in (1, 2, 3)] if tier == "quick" else \
        [(3, [r], [w], "IU2", None) for r in (1, 2, 3, 4, 1024) for w in (1, 7)] + [(2, [2], [3], "C*8", c07.IMG11)]
    for inst in insts:
        obs.append(Ob(f"C09.torn.{c07.tag(*inst)}", "X",
                      "open_image with any options from any state with at least one torn index: returns the uncached group (never raises), writes only "
                      "when asked; after create_cache=True the local index is complete and decodes to the group",
                      c07.FUNCS, bounds=f"forall local, adjacent in {{absent, complete, torn}}, cut 0<=k<len, len>=2 (unbounded), cut inside a multi-byte character or not, use_cache, create_cache, protocol; lines={inst[0]}, rpc={inst[1]}",
                      harness="harness/h_cache.py", func="torn_ok", params=c07.params(*inst), timeout=3 * to))
    d_insts = [(2, [1, 2, 3], [1], "IU2", None)] if tier == "quick" else [(3, [1, 2, 3, 4, 1024], [2], "IU2", None), (2, [1, 2, 3], [1], "C*8", c07.IMG11)]
    for inst in d_insts:
        obs.append(Ob(f"C09.default.{c07.tag(*inst)}", "X",
                      "open_image with its default options (use_cache=True, create_cache=False) from every state, then a create_cache=True open, then a "
                      "default open: all return the uncached group; the repair leaves a complete index; the last open does not touch the image",
                      c07.FUNCS, bounds=f"forall local, adjacent in {{absent, complete, torn}}, 0<=k<len; lines={inst[0]}, rpc in {inst[1]}",
                      harness="harness/h_cache.py", func="default_open_after_crash_ok", params=c07.params(*inst), timeout=to))
    obs.append(Ob("C09.opts", "X", "the create_cache / use_cache of this call reach every image reader unchanged whatever lies in the product directory (also an "
                  "<image>.index next to every image): a requested repair is never silently switched off at the product level",
                  ["ceos_alos2.xarray:open_alos2", "ceos_alos2.io:open"], bounds="forall use_cache, create_cache, rpc (int), option keys present/absent, adjacent index files present or "
                  "not, one listed image absent or none; 1..8 images", harness="harness/h_tree.py", func="opts_ok", timeout=to))
    obs.append(Ob("C09.e2e", "E", "witness replay through open_alos2: every (local, adjacent) state in {absent, complete, torn}^2 with cuts at 0, 1, 1/2, len-1 "
                  "characters, default options: no exception, tree == uncached tree; then create_cache=True repairs",
                  ["ceos_alos2.xarray:open_alos2", "ceos_alos2.sar_image.caching:decode"], bounds="concrete replays (not the deciding step)",
                  call="props.c09:ob_e2e", wall_timeout=900))
    return obs


def ob_e2e(tier):
    from vlib import api

    runs, bad = 0, []
    for local in range(3):
        for remote in range(3):
            for frac in ((0.5,) if 2 not in (local, remote) else (0.0, 0.0005, 0.5, 0.9999)):
                for use, create in ((True, False), (True, True)):
                    r = api.cache_states(local, remote, frac, use, create)
                    runs += 1
                    if r.get("reproduced"):
                        r.update(local=local, adjacent=remote, frac=frac, use_cache=use, create_cache=create)
                        bad.append(r)
    # level 1.1 (its units contain non-ASCII characters): byte-level crash points, also inside a multi-byte character if the index has one
    for local, remote in ((2, 0), (0, 2), (2, 2)):
        for mid in (False, True):
            r = api.cache_states(local, remote, 0.4, True, False, level="1.1", midchar=mid)
            runs += 1
            if r.get("reproduced"):
                r.update(local=local, adjacent=remote, level="1.1", midchar=mid)
                bad.append(r)
    res = {"verdict": "violated" if bad else "discharged", "queries": runs, "replays": runs}
    if bad:
        res["cex"] = bad[:3]
        res["finding_key"] = "C09.e2e:" + ";".join(f"{b['local']}/{b['adjacent']}/{b.get('frac', 'byte')}" for b in bad[:4])
    return res


validate_stubs = c07.validate_stubs
