"""C19 - concurrent reads are safe: parallel loads equal sequential loads (DESIGN 5/C19)."""
from vlib.core import Ob

LEVEL = "other"
EXPLANATION = (
    "Engine S. The real load path (xr.Variable -> LazilyIndexedArray -> LazilyIndexedWrapper.__getitem__ -> explicit_indexing_adapter -> "
    "_raw_indexing_method -> Array.__getitem__ -> fs.open/seek/read/close) is executed once per load on an instrumented in-memory "
    "filesystem, with the lock object the real code created wrapped by a logging proxy (labelled by the identity of the underlying mutual-exclusion object, so pickled copies exclude the original exactly when the real objects do) and the Array "
    "replaced by a subclass that logs every attribute read and write. The recorded event programs keep the identity of locks, file "
    "handles and objects. z3 then searches for a global order of all events of 2-3 loads that respects program order and lock exclusion "
    "and contains a hazard: a foreign seek/read between a load's seek and read on the same handle, a foreign close before a load's use "
    "of its handle, or a conflicting access to the same attribute of a shared object while the writing load is still running. unsat "
    "means every interleaving of the file operations gives every read the bytes the sequential run gave it; lock-order cycles (deadlock "
    "potential) are excluded by a ranking query. A satisfying schedule is executed with real threads whose filesystem and lock "
    "operations are gated in the solver's order; it is reported only if a load then returns other values, raises or hangs."
)
ASSUMPTIONS = [
    "a load's event program does not depend on the interleaving (straight-line code; the recorded programs are compared between two recordings)",
    "atomicity of single Python-level operations (GIL); module-level shared state is visible only through the file handles / locks it touches",
    "2-3 concurrent loads of the recorded selections (same chunk, different chunks, overlapping, two/three variables, pickled copy), on a filesystem with independent handles (local files) and on one whose opens share one file object and position (fsspec memory://)",
]
TRUSTED = ["z3 5.1", "vlib.sched event model (file position per handle, lock exclusion)", "xarray's LazilyIndexedArray / explicit_indexing_adapter (executed, not modelled)"]
F = ["ceos_alos2.xarray:LazilyIndexedWrapper.__getitem__", "ceos_alos2.xarray:LazilyIndexedWrapper._raw_indexing_method", "ceos_alos2.xarray:to_variable",
     "ceos_alos2.array:Array.__getitem__", "ceos_alos2.array:read_chunk"]


def obligations(tier):
    from vlib import sched

    names = list(sched.SCENARIOS)
    if tier == "quick":
        names = [n for n in names if n != "three-loads"] + ["three-loads"]
    return [Ob(f"C19.{n.replace('/', '.')}", "S", f"scenario {n}: no schedule of the recorded open/seek/read/close/lock/attribute events lets a load see other bytes than sequentially; "
               "no lock-order cycle", F, bounds=f"all interleavings of the events of {len(sched.SCENARIOS[n])} loads ({sched.SCENARIOS[n]})", call="props.c19:ob_scenario",
               kwargs={"scenario": n}, wall_timeout=600) for n in names]


def validate_stubs():
    """the two filesystem models of the schedule engine against fsspec: local files give every open its own handle and position;
    memory:// hands out ONE file object per path, rewound on open, still usable after close()"""
    import os
    import tempfile

    import fsspec

    mem = fsspec.filesystem("memory")
    mem.pipe_file("/vc19/a", b"0123456789")
    f1 = mem.open("/vc19/a", "rb")
    f1.seek(5)
    f2 = mem.open("/vc19/a", "rb")
    assert f1 is f2 and f1.tell() == 0, "fsspec memory filesystem no longer shares file objects: the shared-handle model is obsolete"
    f1.close()
    assert mem.open("/vc19/a", "rb").read(3) == b"012"
    mem.rm("/vc19/a")
    d = tempfile.mkdtemp(prefix="vc19_")
    try:
        path = os.path.join(d, "a")
        open(path, "wb").write(b"0123456789")
        loc = fsspec.filesystem("file")
        g1 = loc.open(path, "rb")
        g1.seek(5)
        g2 = loc.open(path, "rb")
        assert g1 is not g2 and g1.tell() == 5 and g2.tell() == 0
        g1.close()
        try:
            g1.read(1)
            raise AssertionError("read of a closed local file did not raise")
        except ValueError:
            pass
        g2.close()
    finally:
        import shutil

        shutil.rmtree(d, ignore_errors=True)
    return {"fsspec file models": "local: own handle and position per open, read after close raises; memory: one shared file object per path, rewound on open"}


def ob_scenario(tier, scenario):
    from vlib import sched

    programs, results = sched.record(scenario)
    programs2, _ = sched.record(scenario)
    shape = lambda ps: [[(e[0],) + tuple(x for x in e[2:]) for e in p] for p in ps]  # noqa: E731
    res = {"events": [len(p) for p in programs], "queries": 2}
    if shape(programs) != shape(programs2):
        return dict(res, verdict="inconclusive", reason="event programs differ between two sequential recordings")
    cyc, edges = sched.lock_order_cycle(programs)
    out = sched.solve(programs)
    res.update({k: v for k, v in out.items() if k not in ("schedule", "verdict")})
    res["witness"] = [{"program of load 0": [" ".join(map(str, e)) for e in programs[0]][:16]}]
    if cyc:
        return dict(res, verdict="violated", cex={"lock order cycle": edges}, finding_key=f"C19:{scenario}:lock-cycle")
    if out["verdict"] == "unsat":
        return dict(res, verdict="discharged")
    if out["verdict"] != "sat":
        return dict(res, verdict="inconclusive", reason=out.get("reason", out["verdict"]))
    rep = sched.replay(scenario, out["schedule"], programs, results)
    tries = 0
    # the solver's schedule is one of many with the same hazard: also try the canonical "stop the first load before its read" schedules
    while not rep["reproduced"] and tries < 6:
        rep = sched.replay(scenario, _variant(programs, out["schedule"], tries), programs, results)
        tries += 1
    res["cex"] = {"hazards": out.get("hazards"), "schedule": [f"{i}:{' '.join(map(str, programs[i][k]))}" for i, k in out["schedule"]][:40], "replay": rep}
    if rep["reproduced"]:
        return dict(res, verdict="violated", finding_key=f"C19:{scenario}:" + ";".join(out.get("hazards", []))[:200])
    return dict(res, verdict="inconclusive", reason="the solver found a hazardous schedule but real threads gated in that order returned the sequential values")


def _variant(programs, schedule, t):
    """schedules that park one load right before / after one of its file operations and let the others run to completion"""
    n = len(programs)
    victim = t % n
    cut_kinds = [("read",), ("seek",), ("close",)][(t // n) % 3]
    p = programs[victim]
    cut = next((k for k, e in enumerate(p) if e[0] in cut_kinds), len(p) // 2)
    order = [(victim, k) for k in range(cut)]
    for j in range(n):
        if j != victim:
            order += [(j, k) for k in range(len(programs[j]))]
    order += [(victim, k) for k in range(cut, len(p))]
    return order
