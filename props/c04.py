"""C04 - SAR leader metadata equals the field values stored in the leader file (DESIGN 5/C04)."""
from props.plumb import plumb_obligations
from vlib.core import Ob

LEVEL = "other"
EXPLANATION = (
    "Layout: all 956 fields of the live sar_leader_record (nine record types) are interpreted with symbolic structure parameters "
    "(map-projection count c, attitude point count and record length, channel count, four facility record lengths, generic array "
    "indices); the solver shows every offset/width equals the pinned linear term for all admissible parameters and the kind chains "
    "(AsciiInteger/AsciiFloat/PaddedString, Factor value, units, enum tables) are the pinned ones; 16 CEOS byte positions known "
    "independently of the repository anchor the table. Decoding: for every ASCII string up to the bound, AsciiInteger / AsciiFloat / "
    "PaddedString hand exactly the text without its padding to the number parser (uninterpreted INT/FLOAT) or return -1 / NaN / '' "
    "when the field is blank; a complex field keeps each half as it is (enumerated through the real parser). Plumbing: the real sar_leader.metadata.transform_metadata with all seven "
    "record transformers runs on the exact parsed document of seven structure variants (UTM / UPS / LCC / MER / no map projection, "
    "1-3 attitude points and channels) with the ~480 numeric fields that reach /metadata as symbolic integers: every variable, "
    "attribute, dimension, unit and group path carries its pinned source for all values. End to end: a leader written from the pinned "
    "layout goes through the real parser and transformers and is compared with the pinned tree."
)
ASSUMPTIONS = [
    "pinned oracles (spec/layout.json, spec/trees.json) are regression oracles audited against spec/anchors.json; not comparable with the JAXA PDF offline",
    "CPython's int()/float() are the 'read as written' part (uninterpreted); strings bounded by the stated length",
    "attitude times and the platform-position first point are decided in C17 (concrete here); texts and enum codes concrete",
    "structure variants enumerated; layout part unbounded in all counts and lengths",
]
TRUSTED = ["z3 5.1", "CrossHair 0.0.110", "vlib.layout class models"]

LED_FUNCS = ["ceos_alos2.sar_leader.metadata:transform_metadata", "ceos_alos2.sar_leader.dataset_summary:transform_dataset_summary",
             "ceos_alos2.sar_leader.map_projection:transform_map_projection", "ceos_alos2.sar_leader.map_projection:filter_map_projection",
             "ceos_alos2.sar_leader.map_projection:transform_corner_points", "ceos_alos2.sar_leader.map_projection:transform_conversion_coefficients",
             "ceos_alos2.sar_leader.platform_position:transform_platform_position", "ceos_alos2.sar_leader.platform_position:transform_positions",
             "ceos_alos2.sar_leader.attitude:transform_attitude", "ceos_alos2.sar_leader.attitude:transform_section", "ceos_alos2.sar_leader.attitude:prepend_dim",
             "ceos_alos2.sar_leader.radiometric_data:transform_radiometric_data", "ceos_alos2.sar_leader.radiometric_data:transform_matrices",
             "ceos_alos2.sar_leader.data_quality_summary:transform_data_quality_summary", "ceos_alos2.sar_leader.data_quality_summary:transform_relative",
             "ceos_alos2.sar_leader.facility_related_data:transform_record5", "ceos_alos2.sar_leader.facility_related_data:transform_group",
             "ceos_alos2.transformers:as_group", "ceos_alos2.transformers:as_variable", "ceos_alos2.transformers:transform_nested",
             "ceos_alos2.transformers:separate_attrs", "ceos_alos2.transformers:remove_spares", "ceos_alos2.dicttoolz:move_items", "ceos_alos2.dicttoolz:copy_items"]
LED_STRUCT = ["ceos_alos2.sar_leader.structure:sar_leader_record"]
ALL = ["leader.utm", "leader.ups", "leader.lcc", "leader.mer", "leader.nomp", "leader.small", "leader.big"]


def obligations(tier):
    to = 400 if tier == "quick" else 1200
    maxlen = 5 if tier == "quick" else 7
    obs = [
        Ob("C04.lay", "L", "all fields of the leader file at their pinned offsets/widths for every admissible structure; adapter chains, factors, units, enum tables as pinned",
           LED_STRUCT, bounds="forall c in {0,1}, attitude points >= 0 with record length >= 16+120n, channels 0..16, facility lengths >= 66, array indices (unbounded); 956 fields",
           call="props.lay:ob_layout", kwargs={"names": ["sar_leader"]}, wall_timeout=900),
        Ob("C04.anchors", "L", "16 CEOS byte positions of leader fields + record starts/sizes known independently of the repository", LED_STRUCT,
           bounds="forall structure parameters", call="props.lay:ob_anchors", kwargs={"scope": "leader"}),
    ]
    for f, what in (("ascii_int_ok", "AsciiInteger: -1 iff all padding else INT(text without padding)"), ("ascii_float_ok", "AsciiFloat: FLOAT('nan') iff all padding else FLOAT(text without padding)"),
                    ("padded_string_ok", "PaddedString: text without leading/trailing padding")):
        obs.append(Ob(f"C04.ad.{f[:-3]}", "X", what + " (reference: index loops, not str.strip)", ["ceos_alos2.datatypes:" + {"ascii_int_ok": "AsciiInteger", "ascii_float_ok": "AsciiFloat",
                      "padded_string_ok": "PaddedString"}[f] + "._decode"], bounds=f"forall ASCII strings |s| <= {maxlen}", outside="CPython int()/float() (uninterpreted)",
                      harness="harness/h_adapters.py", func=f, params={"maxlen": maxlen}, timeout=to))
    obs.append(Ob("C04.ad.complex", "E", "AsciiComplex: real part = first field, imaginary part = second field, each kept as it is (NaN for a blank half, +-inf, -0.0)",
                  ["ceos_alos2.datatypes:AsciiComplex._decode"], bounds="concrete enumeration of 8 x 8 IEEE value classes incl. NaN, +-inf, +-0.0 (CrossHair's own complex() model composes "
                  "a + b*1j and cannot be used here); through the real construct parser on ASCII text", call="props.c04:ob_complex"))
    obs += plumb_obligations("C04", ALL if tier == "thorough" else ALL, LED_FUNCS, to,
                             "every location under /metadata (group path, variable, dimension, unit, attribute) carries exactly its pinned source field - for all field values")
    obs += [
        Ob("C04.order", "E", "concrete twin: member / attribute order as pinned", LED_FUNCS, bounds="2 concrete token assignments per variant",
           call="props.plumb:ob_order", kwargs={"variants": ALL}),
        Ob("C04.e2e", "E", "a leader file written from the pinned layout -> real parser -> real transformers: every followed field arrives where the pinned tree says (scaled by its factor)",
           LED_FUNCS + ["ceos_alos2.sar_leader.io:open_sar_leader", "ceos_alos2.utils:to_dict"], bounds="concrete replay (not the deciding step)",
           call="props.plumb:ob_e2e", kwargs={"families": ["leader"]}),
    ]
    return obs


def validate_stubs():
    from vlib import layout

    return {"layout_interpreter_vs_synth_leaves": layout.conformance()}


def ob_complex(tier):
    from ceos_alos2.datatypes import AsciiComplex

    vals = [("0.0", 0.0), ("-0.0", -0.0), ("1.5", 1.5), ("-2.5E-30", -2.5e-30), ("inf", float("inf")), ("-inf", float("-inf")), ("", float("nan")), ("3.0E+38", 3.0e38)]
    parser = AsciiComplex(32)
    bad = []
    for ta, a in vals:
        for tb, b in vals:
            try:
                got = parser.parse((ta.rjust(16) + tb.rjust(16)).encode())
            except Exception as e:  # noqa: BLE001 - a blank half must give NaN, never an exception
                got = f"raised {type(e).__name__}: {str(e)[:60]}"
            if not isinstance(got, complex) or repr(got.real) != repr(a) or repr(got.imag) != repr(b):
                bad.append({"real text": ta, "imaginary text": tb, "got": repr(got)})
    res = {"verdict": "violated" if bad else "discharged", "queries": len(vals) ** 2, "replays": len(vals) ** 2}
    if bad:
        res["cex"] = bad[:4]
        res["finding_key"] = "C04.ad.complex:" + ";".join(f"{b['real text']}|{b['imaginary text']}" for b in bad[:4])
    return res
