"""C12 - well-typed tree: declared shape/dtype match loaded data, no opaque objects (DESIGN 5/C12)."""
from vlib.core import Ob

LEVEL = "other"
EXPLANATION = (
    "CrossHair/z3 on the real LazilyIndexedWrapper / Array: for every header shape (symbolic lines, pixels, records_per_chunk) and both "
    "type codes the lazy image variable advertises a numpy dtype instance equal (up to byte order) to the dtype parse_data produces and "
    "the header shape; empty row selections return a real ndarray of that dtype (not the on-disk structured dtype) with the image's "
    "columns (symbolic slice bounds). Shapes of non-empty selections are C02. Type discipline: the real transformers of both image "
    "record types, seven leader variants and the volume directory are run on parsed documents with symbolic field values and the "
    "resulting groups are walked: every variable's data is the backend array, an ndarray of kind b/i/u/f/c/M/m/U or a (nested) list of "
    "scalars of one kind with rank = number of dims - no dict or (value, attributes) tuple elements; every attribute is a scalar, a "
    "string or a nested list/tuple of those. Witness replays through open_alos2 compare declared and loaded dtype/shape of every "
    "variable of every node, run repr(tree) and nbytes, and every kind of indexing xarray accepts."
)
ASSUMPTIONS = ["xarray converts lists of scalars of one kind to arrays of kind b/i/u/f/c/U (trusted; observed in the replays)",
               "structure variants enumerated (as in C03/C04); field values symbolic integers",
               "shape/dtype of non-empty selections: C02 (basic keys) + xarray's decomposition (contract, exercised by the replays)"]
TRUSTED = ["z3 5.1", "CrossHair 0.0.110", "numpy dtype comparison"]


def obligations(tier):
    to = 300 if tier == "quick" else 900
    variants = ["image.15.n2", "image.11.n2", "image.11.n1", "leader.utm", "leader.nomp", "leader.small", "volume.fp3"] if tier == "quick" else \
        ["image.15.n2", "image.15.n3", "image.11.n2", "image.11.n1", "leader.utm", "leader.ups", "leader.lcc", "leader.mer", "leader.nomp", "leader.small", "leader.big", "volume.fp0", "volume.fp3"]
    return [
        Ob("C12.declared", "X", "the lazy image variable advertises an np.dtype instance equal (up to byte order) to what a load produces, of kind u/c, and the header shape",
           ["ceos_alos2.xarray:LazilyIndexedWrapper.__init__", "ceos_alos2.array:Array.__post_init__", "ceos_alos2.array:parse_data", "ceos_alos2.sar_image.metadata:dtypes"],
           bounds="forall lines, pixels, records_per_chunk >= 1 (unbounded); both type codes", harness="harness/h_types.py", func="declared_ok", timeout=to),
        Ob("C12.open", "X", "the advertised image shape is (number_of_lines_per_dataset, number_of_data_groups_per_line) of the header - no other header field "
           "(border pixels/lines, blank or filled) enters it - and a full load returns exactly that many lines, each with its data bytes",
           ["ceos_alos2.sar_image:open_image", "ceos_alos2.sar_image.metadata:transform_metadata", "ceos_alos2.sar_image.metadata:extract_shape",
            "ceos_alos2.array:Array.__getitem__"], bounds="forall 12<=H<L, pixels>=1; n in 0..3, rpc in 1..3; every other field of the header section blank or arbitrary",
           harness="harness/h_image.py", func="open_ok", params={"ns": [0, 1, 2, 3], "rpcs": [1, 2, 3], "type_code": "IU2", "imgname": "IMG-HH-ALOS2290760600-191011-WBDR1.5GUD"},
           timeout=to),
        Ob("C12.hdr", "X", "header-derived attributes of the image group are plain values present only when their field is filled: a blank field never surfaces as None "
           "(or any other placeholder object)", ["ceos_alos2.sar_image.metadata:transform_metadata", "ceos_alos2.sar_image.metadata:extract_attrs"],
           bounds="forall field values >= -1 (-1 = blank), interleaving blank or not, both type codes", harness="harness/h_adapters.py", func="header_flow_ok", timeout=to),
        Ob("C12.adapter", "X", "what a load returns is exactly what the backend array returned for the key xarray's adapter produced (no re-wrapping that could change rank, "
           "shape or dtype): advertised shape = loaded shape for every selection the adapter can produce",
           ["ceos_alos2.xarray:LazilyIndexedWrapper.__getitem__", "ceos_alos2.xarray:LazilyIndexedWrapper._raw_indexing_method"],
           bounds="forall shapes; symbolic key token; counterexamples confirmed through DataArray.isel on synthesised products (17 selection kinds incl. 0-d)",
           harness="harness/h_tree.py", func="adapter_ok", timeout=300),
        Ob("C12.empty", "X", "an empty row selection is a real ndarray of the advertised dtype (not a structured dtype) with shape (0, columns)",
           ["ceos_alos2.array:Array.__getitem__", "ceos_alos2.array:parse_data"], bounds="forall 0 <= stop <= start <= 3, rpc 1..4, both type codes",
           harness="harness/h_types.py", func="empty_ok", timeout=to),
        Ob("C12.types", "X", "every variable: backend array | ndarray of kind biufcMmU | nested list of scalars of one kind, rank = number of dims; every attribute plain "
           "(scalar, string, nested list/tuple); no dict / (value, attrs) pair surfaces as data",
           ["ceos_alos2.sar_image.metadata:transform_metadata", "ceos_alos2.sar_image.metadata:flatten_substructs", "ceos_alos2.sar_leader.metadata:transform_metadata",
            "ceos_alos2.volume_directory.metadata:transform_record", "ceos_alos2.transformers:as_group", "ceos_alos2.transformers:as_variable"],
           bounds=f"forall field values (one symbolic integer in every numeric field); variants {variants}", harness="harness/h_types.py", func="types_ok",
           params={"variants": variants}, timeout=to),
        Ob("C12.e2e.tree", "E", "witness replay through open_alos2 (level 1.5, level 1.1 ScanSAR): every variable of every node: declared dtype is a numpy dtype, declared dtype/shape == loaded, "
           "kinds biufcMmU, plain attributes; repr(tree) and nbytes work", ["ceos_alos2.xarray:open_alos2", "ceos_alos2.xarray:to_variable", "ceos_alos2.xarray:to_dataset"],
           bounds="concrete replays (not the deciding step)", call="props.c12:ob_e2e_tree", wall_timeout=600),
        Ob("C12.e2e.sel", "E", "witness replay: 14 selections of every kind xarray accepts (outer, boolean, vectorised, negative steps, empty, ints) - declared dims/shape == loaded == numpy on the full image",
           ["ceos_alos2.xarray:LazilyIndexedWrapper.__getitem__", "ceos_alos2.array:Array.__getitem__"], bounds="concrete replays (not the deciding step): both sample types, rpc below/above the line count",
           call="props.c12:ob_e2e_sel", wall_timeout=600),
    ]


def _collect(runs):
    bad = [r for r in runs if r.get("reproduced")]
    res = {"verdict": "violated" if bad else "discharged", "queries": len(runs), "replays": len(runs)}
    if bad:
        res["cex"] = bad[:3]
    return res


def ob_e2e_tree(tier):
    from vlib import api

    res = _collect([dict(api.typed_tree("1.5"), level="1.5"), dict(api.typed_tree("1.1", pols=("HH", "HV"), scans=("F1", "F2")), level="1.1")])
    if res["verdict"] == "violated":
        res["finding_key"] = "C12.e2e.tree:" + ";".join(d for r in res["cex"] for d in r["detail"][:2])[:300]
    return res


def ob_e2e_sel(tier):
    from vlib import api

    res = _collect([dict(api.indexing_kinds(level, rpc=rpc), level=level, rpc=rpc) for level in ("1.5", "1.1") for rpc in (2, 7)])
    if res["verdict"] == "violated":
        res["finding_key"] = "C12.e2e.sel:" + ";".join(d for r in res["cex"] for d in r["detail"][:2])[:300]
    return res
