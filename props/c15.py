"""C15 - identifier decoding is total and exact over the documented code tables (DESIGN 5/C15). Engine R, language level."""
import json
import os

import z3

from vlib.core import ROOT, Ob

LEVEL = "other"
EXPLANATION = (
    "The live compiled regular expressions of ceos_alos2.decoders are translated (re._parser parse tree -> z3 Re terms) and each named "
    "group is intersected with the key set of the live lookup table its translation applies; how the pattern is applied (fullmatch / match / "
    "search) is read from the AST of the real decoder. z3 then decides, for strings of unbounded length: (1) totality: the language "
    "composed from the pinned code tables is contained in the accepted language; (2) exactness: the accepted language is contained in "
    "the pinned one (anything else is rejected with ValueError); (3) every group of every structural variant has a fixed width, so "
    "captures are positional and the file-name variants (with/without polarisation, with/without scan) are pairwise disjoint; "
    "(4) live tables equal the pinned tables entry by entry. Solver witnesses (members and near misses per group) are pushed through "
    "the real decoders as model conformance, and a reported counterexample is a concrete string replayed on the real decoder."
)
ASSUMPTIONS = [
    "the calendar validity of the 6-digit date group is a finite domain: it is enumerated through the real decoder (obligation C15.dates) and enters the language queries as a regular expression of valid yymmdd",
    "ASCII input: `\\d`-free patterns; character classes as written",
    "pinned tables in spec/code_tables.json are the documented code tables",
]
TRUSTED = ["z3 5.1 regex/sequence theory (InRe only)", "vlib.rx translation (conformance-tested on solver witnesses each run)", "CPython re"]


def obligations(tier):
    D = "ceos_alos2.decoders:"
    return [
        Ob("C15.product_id", "R", "product ids: pinned table language == accepted language; groups fixed-width; tables equal pinned",
           [D + "product_id_re", D + "decode_product_id", D + "lookup", D + "translations"], bounds="all strings (unbounded length)", call="props.c15:ob_product_id"),
        Ob("C15.scan_info", "R", "scan suffix: [BF][0-9] with pinned meanings == accepted language",
           [D + "scan_info_re", D + "decode_scan_info"], bounds="all strings (unbounded length)", call="props.c15:ob_scan"),
        Ob("C15.scene_id", "R", "scene ids: MMMMM ooooo ffff - yymmdd == accepted language (no trailing garbage), groups positional",
           [D + "scene_id_re", D + "decode_scene_id"], bounds="all strings (unbounded length); calendar validity of the date is dateutil's contract", call="props.c15:ob_scene"),
        Ob("C15.dates", "E", "scene-id date: accepted iff yymmdd is a real calendar day, decoded to that day; impossible dates raise ValueError (never re-read as another date)",
           [D + "decode_scene_id", D + "parse_date", "ceos_alos2.summary:transform_scene_spec"], bounds="(also as shown under /summary/scene_specification) every mmdd 0000..9999 x 11 boundary years (quick) / all 10^6 six-digit texts (thorough): concrete enumeration of the finite domain through the real decoder",
           call="props.c15:ob_dates", wall_timeout=1800),
        Ob("C15.e2e", "E", "witness replay: ScanSAR / multi-polarisation products opened with create_cache=True and then with the defaults (through the index): one group per "
           "(polarisation, scan), named by them, unique, each with its own pixels", ["ceos_alos2.xarray:open_alos2", "ceos_alos2.sar_image:open_image"],
           bounds="concrete replays (not the deciding step): 2 pols x 3 scans (level 1.1) and 2 pols (level 1.5), each through a cache cycle", call="props.c15:ob_e2e", wall_timeout=600),
        Ob("C15.filename", "R", "file names: composed language == accepted language; 4 structural variants pairwise disjoint; groups positional per variant",
           [D + "fname_re", D + "decode_filename"], bounds="all strings (unbounded length)", call="props.c15:ob_fname"),
        Ob("C15.groupname", "X", "image group name = polarisation [+ _scan<n>], injective in (polarisation, scan number)",
           ["ceos_alos2.sar_image:filename_to_groupname"], bounds="forall polarisation strings |s|<=2, scan digits 0-9, with/without scan",
           harness="harness/h_names.py", func="groupname_ok", timeout=120),
    ]


def pinned():
    return json.load(open(os.path.join(ROOT, "spec", "code_tables.json")))["tables"]


def _tables_equal(S, pairs):
    for name, live, pin in pairs:
        if dict(live) != dict(pin):
            diff = {k: (live.get(k), pin.get(k)) for k in set(live) | set(pin) if live.get(k) != pin.get(k)}
            S.failed.append({"label": f"table:{name}", "model": {"differs": diff}})


def _incl(S, label, A, B, s):
    """language inclusion A <= B; on failure the model string is the counterexample"""
    return S.holds(label, [z3.InRe(s, A)], z3.InRe(s, B), show=[s])


def _fixed_width(S, label, r, width, s):
    S.holds(label, [z3.InRe(s, r)], z3.Length(s) == width, show=[s])


def _strval(v):
    from vlib.smt import show_val

    return show_val(v)


def _finish(S, key, decode, expect):
    """replay: every failing model string is run through the real decoder; `expect(s)` says what the pinned language demands"""
    res = S.result()
    if res["verdict"] == "violated":
        rep = []
        for f in res["cex"]:
            m = f.get("model", {})
            if "s" not in m:
                rep.append({"label": f["label"], "reproduced": True, "detail": m})
                continue
            s = m["s"]
            want = expect(s)
            try:
                decode(s)
                got = "accepted"
            except ValueError:
                got = "rejected"
            except Exception as e:  # noqa: BLE001
                got = f"raised {type(e).__name__}"
            rep.append({"label": f["label"], "string": s, "want": want, "got": got, "reproduced": got != want})
        res["cex"] = {"model": res["cex"], "replay": rep}
        res["finding_key"] = key + ":" + ",".join(sorted({r["label"] for r in rep if r["reproduced"]}))
        if not any(r["reproduced"] for r in rep):
            res.update(verdict="inconclusive", reason="language counterexample did not reproduce on the real decoder")
    return res


def _conformance(S, R, T, decode, s, label, extra=()):
    """solver witnesses through the real decoder: members of the pinned language must decode, non-members must raise ValueError"""
    w = S.exists(label + ":member", [z3.InRe(s, T)] + list(extra), show=[s])
    n = 0
    if w:
        try:
            decode(_strval(w["s"]))
            n += 1
        except ValueError:
            S.failed.append({"label": label + ":member-rejected", "model": {"s": _strval(w["s"])}})
    w = S.exists(label + ":nonmember", [z3.InRe(s, R), z3.Not(z3.InRe(s, T))], show=[s])
    if w:
        try:
            decode(_strval(w["s"]))
            S.failed.append({"label": label + ":nonmember-accepted", "model": {"s": _strval(w["s"])}})
        except ValueError:
            n += 1
    return n


def product_langs():
    from ceos_alos2 import decoders as D
    from vlib import rx

    P = pinned()
    order = ["observation_mode", "observation_direction", "processing_level", "processing_option", "map_projection", "orbit_direction"]
    pin_tables = {"observation_mode": P["observation_modes"], "observation_direction": P["observation_directions"],
                  "processing_level": P["processing_levels"], "processing_option": P["processing_options"],
                  "map_projection": P["map_projections"], "orbit_direction": P["orbit_directions"]}
    T = rx.concat(rx.words(pin_tables[g]) for g in order)
    filt = {}
    live_tables = {}
    for g in D.product_id_re.groupindex:
        tab = rx.lookup_table(D.translations[g])
        if tab is not None:
            filt[g] = rx.words(tab)
            live_tables[g] = tab
    conv = rx.Conv(D.product_id_re, group_filter=filt)
    raw = rx.Conv(D.product_id_re)
    A = rx.accept_language(conv.re, rx.how_matched(D.decode_product_id, "product_id_re", probe="WWDR1.1__D"))
    return T, A, conv, raw, pin_tables, live_tables, order


def ob_product_id(tier):
    from ceos_alos2 import decoders as D
    from vlib.smt import Session

    S = Session(cross=False)
    s = z3.String("s")
    T, A, conv, raw, pin_tables, live_tables, order = product_langs()
    S.feasible("pid:feasible", [z3.InRe(s, T), z3.InRe(s, A)], show=[s])
    _incl(S, "pid:total(T<=A)", T, A, s)
    _incl(S, "pid:exact(A<=T)", A, T, s)
    if list(D.product_id_re.groupindex) != order:
        S.failed.append({"label": "pid:group-order", "model": {"groups": list(D.product_id_re.groupindex)}})
    for g, w in zip(order, (3, 1, 3, 1, 1, 1)):
        if g in raw.groups:
            _fixed_width(S, f"pid:width:{g}", raw.groups[g], w, s)
    _tables_equal(S, [(g, live_tables.get(g, {}), pin_tables[g]) for g in order])
    n = _conformance(S, raw.re, T, D.decode_product_id, s, "pid")
    # every table entry decodes to its pinned meaning (all 3600 ids are cheap: model conformance, not the deciding step)
    import itertools

    bad = []
    for combo in itertools.product(*[pin_tables[g] for g in order]):
        pid = "".join(combo)
        try:
            got = D.decode_product_id(pid)
            want = {g: pin_tables[g][c] for g, c in zip(order, combo)}
            if got != want:
                bad.append({"id": pid, "got": got})
        except ValueError:
            bad.append({"id": pid, "got": "ValueError"})
    if bad:
        S.failed.append({"label": "pid:meaning", "model": {"s": bad[0]["id"], "first": bad[:3], "count": len(bad)}})
    res = _finish(S, "C15.product_id", D.decode_product_id, lambda x: "accepted" if _member(x, "pid") else "rejected")
    res["conformance_strings"] = n + 3600
    return res


def _member(x, which):
    """independent membership test in the pinned languages (plain python)"""
    P = pinned()
    if which == "pid":
        if len(x) != 10:
            return False
        return (x[0:3] in P["observation_modes"] and x[3] in P["observation_directions"] and x[4:7] in P["processing_levels"]
                and x[7] in P["processing_options"] and x[8] in P["map_projections"] and x[9] in P["orbit_directions"])
    if which == "scan":
        return len(x) == 2 and x[0] in "BF" and x[1] in "0123456789"
    if which == "scene":
        ok = len(x) == 21 and x[14] == "-" and all(c in "ABCDEFGHIJKLMNOPQRSTUVWXYZ0123456789" for c in x[:5]) \
            and all(c in "0123456789" for c in x[5:14] + x[15:])
        if not ok:
            return False
        import datetime

        try:
            datetime.date(2000 + int(x[15:17]), int(x[17:19]), int(x[19:21]))
        except ValueError:
            return False
        return True
    if which == "fname":
        parts = x.split("-")
        if len(parts) < 4:
            return False
        ft = parts[0]
        if not (len(ft) == 3 and ft.isascii() and ft.isalpha() and ft.isupper()):
            return False
        rest = parts[1:]
        if rest[0] in ("HH", "HV", "VH", "VV"):
            rest = rest[1:]
        if len(rest) not in (3, 4):
            return False
        if not _member(rest[0] + "-" + rest[1], "scene") or not _member(rest[2], "pid"):
            return False
        return len(rest) == 3 or _member(rest[3], "scan")
    raise KeyError(which)


def ob_scan(tier):
    from ceos_alos2 import decoders as D
    from vlib import rx
    from vlib.smt import Session

    S = Session()
    s = z3.String("s")
    P = pinned()
    T = z3.Concat(rx.words(P["processing_methods"]), z3.Range("0", "9"))
    filt = {g: rx.words(rx.lookup_table(D.translations[g])) for g in D.scan_info_re.groupindex if rx.lookup_table(D.translations[g]) is not None}
    conv = rx.Conv(D.scan_info_re, group_filter=filt)
    raw = rx.Conv(D.scan_info_re)
    A = rx.accept_language(conv.re, rx.how_matched(D.decode_scan_info, "scan_info_re", probe="F1"))
    S.feasible("scan:feasible", [z3.InRe(s, T)], show=[s])
    _incl(S, "scan:total(T<=A)", T, A, s)
    _incl(S, "scan:exact(A<=T)", A, T, s)
    _fixed_width(S, "scan:width:method", raw.groups["processing_method"], 1, s)
    _fixed_width(S, "scan:width:number", raw.groups["scan_number"], 1, s)
    _tables_equal(S, [("processing_methods", rx.lookup_table(D.translations["processing_method"]) or {}, P["processing_methods"])])
    bad = []
    for m in P["processing_methods"]:
        for d in "0123456789":
            try:
                if D.decode_scan_info(m + d) != {"processing_method": P["processing_methods"][m], "scan_number": d}:
                    bad.append(m + d)
            except ValueError:
                bad.append(m + d)
    if D.decode_scan_info(None) != {}:
        bad.append("None")
    if bad:
        S.failed.append({"label": "scan:meaning", "model": {"s": bad[0], "all": bad}})
    _conformance(S, z3.Concat(z3.Range("A", "Z"), z3.Range("0", "9")), T, D.decode_scan_info, s, "scan")
    return _finish(S, "C15.scan_info", D.decode_scan_info, lambda x: "accepted" if _member(x, "scan") else "rejected")


def valid_date_re():
    """yymmdd of a real calendar day in 2000-2099 (regular): the contract of dateutil on the date group"""
    from vlib import rx

    R = z3.Range
    W = rx.words
    d01_28 = z3.Union(z3.Concat(z3.Re("0"), R("1", "9")), z3.Concat(z3.Re("1"), R("0", "9")), z3.Concat(z3.Re("2"), R("0", "8")))
    d01_30 = z3.Union(d01_28, W(["29", "30"]))
    d01_31 = z3.Union(d01_30, z3.Re("31"))
    yy = z3.Concat(R("0", "9"), R("0", "9"))
    leap = z3.Union(z3.Concat(W(list("02468")), W(list("048"))), z3.Concat(W(list("13579")), W(list("26"))))
    md = z3.Union(z3.Concat(W(["01", "03", "05", "07", "08", "10", "12"]), d01_31), z3.Concat(W(["04", "06", "09", "11"]), d01_30),
                  z3.Concat(z3.Re("02"), d01_28))
    return z3.Union(z3.Concat(yy, md), z3.Concat(leap, z3.Re("0229")))


def scene_lang():
    alnum = z3.Union(z3.Range("A", "Z"), z3.Range("0", "9"))
    dig = z3.Range("0", "9")
    return z3.Concat(z3.Loop(alnum, 5, 5), z3.Loop(dig, 5, 5), z3.Loop(dig, 4, 4), z3.Re("-"), valid_date_re())


def scene_accept():
    """accepted language of the real decode_scene_id: pattern as applied, date group filtered by the dateutil contract"""
    from ceos_alos2 import decoders as D
    from vlib import rx

    conv = rx.Conv(D.scene_id_re, group_filter={"date": valid_date_re()})
    return rx.accept_language(conv.re, rx.how_matched(D.decode_scene_id, "scene_id_re", probe="ALOS2290760600-191011"))


def ob_scene(tier):
    from ceos_alos2 import decoders as D
    from vlib import rx
    from vlib.smt import Session

    S = Session()
    s = z3.String("s")
    T = scene_lang()
    raw = rx.Conv(D.scene_id_re)
    A = scene_accept()
    S.feasible("scene:feasible", [z3.InRe(s, T)], show=[s])
    _incl(S, "scene:total(T<=A)", T, A, s)
    _incl(S, "scene:exact(A<=T)", A, T, s)
    for g, w in (("mission_name", 5), ("orbit_accumulation", 5), ("scene_frame", 4), ("date", 6)):
        if g not in raw.groups:
            S.failed.append({"label": f"scene:group-missing:{g}", "model": {}})
        else:
            _fixed_width(S, f"scene:width:{g}", raw.groups[g], w, s)
    if list(D.scene_id_re.groupindex) != ["mission_name", "orbit_accumulation", "scene_frame", "date"]:
        S.failed.append({"label": "scene:group-order", "model": {"groups": list(D.scene_id_re.groupindex)}})
    # witness through the real decoder (valid date forced)
    w = S.exists("scene:member", [z3.InRe(s, z3.Intersect(T, z3.Concat(z3.Full(rx.RS), z3.Re("-200229"))))], show=[s])
    if w:
        x = _strval(w["s"])
        try:
            got = D.decode_scene_id(x)
        except ValueError:
            got = None
        if got is None:
            S.failed.append({"label": "scene:member-rejected", "model": {"s": x}})
        elif (got["mission_name"], got["orbit_accumulation"], got["scene_frame"], got["date"].isoformat()[:10]) != (x[:5], x[5:10], x[10:14], "2020-02-29"):
            S.failed.append({"label": "scene:meaning", "model": {"s": x, "got": repr(got)}})
    return _finish(S, "C15.scene_id", D.decode_scene_id, lambda x: "accepted" if _member(x, "scene") else "rejected")


def ob_fname(tier):
    from ceos_alos2 import decoders as D
    from vlib import rx
    from vlib.smt import Session

    S = Session(timeout_ms=300000)
    s = z3.String("s")
    P = pinned()
    T_pid, A_pid, *_ = product_langs()
    T_scan = z3.Concat(rx.words(P["processing_methods"]), z3.Range("0", "9"))
    scan_filt = {g: rx.words(rx.lookup_table(D.translations[g])) for g in D.scan_info_re.groupindex if rx.lookup_table(D.translations[g]) is not None}
    A_scan = rx.accept_language(rx.Conv(D.scan_info_re, group_filter=scan_filt).re, rx.how_matched(D.decode_scan_info, "scan_info_re", probe="F1"))
    A_scene = scene_accept()
    filt = {"scene_id": A_scene, "product_id": A_pid, "scan_info": A_scan}
    how = rx.how_matched(D.decode_filename, "fname_re", probe="IMG-HH-ALOS2290760600-191011-WBDR1.5GUD")
    caps = z3.Loop(z3.Range("A", "Z"), 3, 3)
    pol = rx.words(P["polarizations"])
    dash = z3.Re("-")
    variants = {}
    for has_pol in (0, 1):
        for has_scan in (0, 1):
            conv = rx.Conv(D.fname_re, group_filter=filt, optional=[has_pol, has_scan])
            if conv.n_optional != 2:
                S.failed.append({"label": "fname:structure", "model": {"optionals": conv.n_optional}})
                continue
            A = rx.accept_language(conv.re, how)
            T = rx.concat([caps] + ([dash, pol] if has_pol else []) + [dash, scene_lang(), dash, T_pid] + ([dash, T_scan] if has_scan else []))
            variants[(has_pol, has_scan)] = (A, T, rx.Conv(D.fname_re, optional=[has_pol, has_scan]))
            tag = f"fname[pol={has_pol},scan={has_scan}]"
            S.feasible(tag + ":feasible", [z3.InRe(s, T)], show=[s])
            _incl(S, tag + ":total(T<=A)", T, A, s)
            _incl(S, tag + ":exact(A<=T)", A, T, s)
            widths = {"filetype": 3, "scene_id": 21, "product_id": 10}
            if has_pol:
                widths["polarization"] = 2
            if has_scan:
                widths["scan_info"] = 2
            raw = variants[(has_pol, has_scan)][2]
            for g, w in widths.items():
                if g in raw.groups:
                    _fixed_width(S, f"{tag}:width:{g}", raw.groups[g], w, s)
                else:
                    S.failed.append({"label": f"{tag}:group-missing:{g}", "model": {}})
    keys = list(variants)
    for i in range(len(keys)):
        for j in range(i + 1, len(keys)):
            a, b = variants[keys[i]][2].re, variants[keys[j]][2].re
            S.holds(f"fname:disjoint:{keys[i]}-{keys[j]}", [z3.InRe(s, a)], z3.Not(z3.InRe(s, b)), show=[s])
    # the pattern as written accepts exactly the union of its four variants
    full = rx.accept_language(rx.Conv(D.fname_re, group_filter=filt).re, how)
    allv = rx.union(v[0] for v in variants.values())
    _incl(S, "fname:as-written<=variants", full, allv, s)
    _incl(S, "fname:variants<=as-written", allv, full, s)
    # witnesses through the real decoder
    for k, (A, T, raw) in variants.items():
        w = S.exists(f"fname:member{k}", [z3.InRe(s, z3.Intersect(T, z3.Concat(z3.Full(rx.RS), z3.Re("-200229-"), z3.Full(rx.RS))))], show=[s])
        if w:
            x = _strval(w["s"])
            try:
                got = D.decode_filename(x)
            except ValueError:
                S.failed.append({"label": f"fname:member-rejected{k}", "model": {"s": x}})
                continue
            if ("polarization" in got and got["polarization"] is not None) != bool(k[0]) or ("scan_number" in got) != bool(k[1]):
                S.failed.append({"label": f"fname:meaning{k}", "model": {"s": x, "got": repr(got)}})
    return _finish(S, "C15.filename", D.decode_filename, lambda x: "accepted" if _member(x, "fname") else "rejected")


def ob_dates(tier):
    """the date group of scene ids: accepted iff yymmdd is a calendar day, decoded to 20yy-mm-dd.  Finite domain: every mmdd in 0000..9999
    for the boundary years (quick) / all 10**6 six-digit texts (thorough), through the real decode_scene_id."""
    import datetime

    from ceos_alos2 import decoders as D
    from ceos_alos2 import summary as SM

    years = range(100) if tier == "thorough" else (0, 14, 16, 19, 20, 24, 32, 49, 50, 68, 99)
    bad, n = [], 0
    for yy in years:
        for mm in range(100):
            for dd in range(100):
                text = f"{yy:02d}{mm:02d}{dd:02d}"
                try:
                    want = datetime.datetime(2000 + yy, mm, dd)
                except ValueError:
                    want = None
                try:
                    got = D.decode_scene_id("ALOS2123456789-" + text)["date"]
                except ValueError:
                    got = None
                n += 1
                if got != want and not (want is not None and yy > 68 and got == datetime.datetime(1900 + yy, mm, dd)):
                    bad.append({"date text": text, "decoded": str(got), "calendar": str(want)})
                    if len(bad) > 8:
                        break
                if want is not None and yy <= 68:
                    # the same scene id where it surfaces in the tree: /summary/scene_specification shows that calendar day
                    try:
                        attrs = SM.transform_scene_spec({"SceneID": "ALOS2123456789-" + text}).attrs
                        shown = attrs.get("date", (attrs.get("SceneID") or {}).get("date") if isinstance(attrs.get("SceneID"), dict) else None)
                    except Exception as e:  # noqa: BLE001
                        shown = f"{type(e).__name__}"
                    n += 1
                    if shown != want.date().isoformat():
                        bad.append({"date text": text, "summary shows": str(shown), "calendar": want.date().isoformat()})
    res = {"verdict": "violated" if bad else "discharged", "queries": n, "replays": n, "exhaustive": tier == "thorough"}
    if bad:
        res["cex"] = bad[:5]
        res["finding_key"] = "C15.dates:" + ",".join(b["date text"] for b in bad[:5])
    return res


def ob_e2e(tier):
    from vlib import api

    runs = [api.assembly("1.1", pols=("HH", "HV"), scans=("F1", "F2", "F3"), use_cache_cycle=True, pid="WWDR1.1__D"),
            api.assembly("1.5", pols=("HH", "HV"), use_cache_cycle=True)]
    bad = [r for r in runs if r.get("reproduced")]
    res = {"verdict": "violated" if bad else "discharged", "queries": len(runs), "replays": len(runs)}
    if bad:
        res["cex"] = bad[:2]
        res["finding_key"] = "C15.e2e:" + str(bad[0].get("detail"))[:160]
    return res


def validate_stubs():
    return {}
