"""C06 - records_per_chunk only changes how, not what (DESIGN 5/C06).  Composition of obligations that are each forall rpc."""
from props.c01 import FUNCS_ARR, FUNCS_IO
from vlib.core import Ob

LEVEL = "other"
EXPLANATION = (
    "The tree is a function of (byte ranges, per-record leaves, header) plus the advertised chunk size. CrossHair/z3 decides on the real "
    "code, for every enumerated (n, rpc) and all symbolic H<L: (a) read_metadata returns the same records, in file order, with byte "
    "ranges given by a closed form that does not mention rpc; (b) open_image stores min(rpc, n) and otherwise rpc-free arguments in the "
    "Array; (c) Array loads return spans given by a closed form that does not mention rpc; (d) the encoding is exactly "
    "{preferred_chunksizes: {rows: min(rpc, n), columns: m}} for all rpc, n, m >= 1 (unbounded). Per-record leaves depend only on "
    "the bytes of their own record (C03 layout, relative to record_start, which (a) shows equals the record's own position)."
)
ASSUMPTIONS = ["same stubs as C01", "cached opens: C07.glue shows the current call's rpc is used", "n, rpc enumerated for (a)-(c); (d) unbounded"]
TRUSTED = ["z3 5.1", "CrossHair 0.0.110", "vlib.env stubs"]


def obligations(tier):
    q = tier == "quick"
    ns = list(range(0, 6)) if q else list(range(0, 11))
    rpcs = list(range(1, 8)) if q else list(range(1, 13))
    obs = [
        Ob("C06.enc", "X", "extract_encoding(Variable(Array)) == {preferred_chunksizes: {rows: min(rpc, n), columns: m}}; Array.chunks, Variable.sizes agree; plain variables get {}",
           ["ceos_alos2.xarray:extract_encoding", "ceos_alos2.array:normalize_chunksize", "ceos_alos2.array:Array.chunks",
            "ceos_alos2.hierarchy:Variable.chunks", "ceos_alos2.hierarchy:Variable.sizes", "ceos_alos2.array:Array.__post_init__"],
           bounds="forall rpc>=1, n>=1, m>=1 (unbounded)", harness="harness/h_enc.py", func="enc_ok", timeout=120),
        Ob("C06.enc.default", "X", "records_per_chunk None -> 1024, -1 -> number of lines", ["ceos_alos2.array:Array.__post_init__", "ceos_alos2.array:normalize_chunksize"],
           bounds="forall n>=1, m>=1", harness="harness/h_enc.py", func="enc_default_ok", timeout=120),
    ]
    for rtype in (10, 11):
        obs.append(Ob(f"C06.meta.t{rtype}", "X", "metadata pass: record list and byte ranges are given by an rpc-free closed form for every rpc",
                      FUNCS_IO, bounds=f"forall 12<=H<L; n in 0..{ns[-1]}, rpc in 1..{rpcs[-1]} (incl. rpc>n, divisors and non-divisors)",
                      harness="harness/h_image.py", func="meta_ok", params={"ns": ns, "rpcs": rpcs, "rtype": rtype}, timeout=300))
    obs.append(Ob("C06.open", "X", "open_image stores min(rpc, n) as chunk size; every other Array argument and the loaded spans are rpc-free",
                  FUNCS_IO + FUNCS_ARR + ["ceos_alos2.sar_image:open_image"], bounds="forall 12<=H<L, pixels>=1; n in 0..4, rpc in 1..6",
                  harness="harness/h_image.py", func="open_ok", params={"ns": [0, 1, 2, 3, 4], "rpcs": [1, 2, 3, 4, 5, 6]}, timeout=300))
    for n in range(1, (4 if q else 6) + 1):
        rr = list(range(1, n + 2))
        obs.append(Ob(f"C06.get.n{n}", "X", "loaded spans per selected row are given by an rpc-free closed form for every rpc", FUNCS_ARR,
                      bounds=f"forall 0<H<L; n={n}, rpc in 1..{n + 1}, monotone row lists of length<={min(n, 3)}",
                      harness="harness/h_image.py", func="rows_ok", params={"n": n, "rpcs": rr, "maxrows": min(n, 3)}, timeout=600))
    obs.append(Ob("C06.opts", "X", "the records_per_chunk given to open_alos2 reaches every image of the product unchanged (default 1024 when absent), on every call: the caller's "
                  "backend_options dict still holds it afterwards, so a reused options object keeps its meaning",
                  ["ceos_alos2.xarray:open_alos2", "ceos_alos2.io:open"], bounds="forall rpc (int), use_cache, create_cache, option keys present/absent; 1..3 images",
                  harness="harness/h_tree.py", func="opts_ok", timeout=300 if q else 900))
    obs.append(Ob("C06.e2e", "E", "witness replay: the same product opened with pairs of records_per_chunk (1, divisors and non-divisors, line count + 1, 10^6): identical trees; "
                  "preferred chunk size = min(rpc, lines)", ["ceos_alos2.xarray:open_alos2", "ceos_alos2.xarray:extract_encoding"], bounds="concrete replays (not the deciding step)",
                  call="props.e2e:ob_rpc", wall_timeout=900))
    return obs
