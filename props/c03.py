"""C03 - per-line and header image metadata equal what each file record encodes (DESIGN 5/C03)."""
from props.plumb import plumb_obligations
from vlib.core import Ob

LEVEL = "other"
EXPLANATION = (
    "Layout: the symbolic interpreter walks the live construct objects of the image file descriptor and of both line-record types; for "
    "every field the solver shows offset and width equal the pinned linear terms for every record length, and adapter chain / scale "
    "factor / unit / enum table / binary format equal the pinned ones; anchors (720-byte descriptor, 544- and 192-byte prefixes) are "
    "checked independently. Decoding: adapter lemmas on symbolic inputs (Factor, Metadata, Flag, StripNullBytes; time adapters in C17, "
    "here additionally the LIVE microsecond adapter is shown to be stateless across lines and files). Plumbing: the real "
    "transform_metadata / transform_line_metadata / deduplicate_attrs / apply_overrides / extract_shape / extract_format_type run by "
    "CrossHair on the exact to_dict(parse) documents of 1-3 lines with every numeric field that reaches the tree replaced by a symbolic "
    "integer: each per-line variable is [value(line 0), ..., value(line n-1)] on dim rows with the pinned unit, per-file constants appear "
    "once as attributes, byte ranges/shape come from the pinned fields - for all values. Header attributes are present exactly when the "
    "field is non-blank, with its value (symbolic field values). End to end: probe bytes written from the PINNED layout are pushed "
    "through the real reader and compared with the PINNED tree."
)
ASSUMPTIONS = [
    "spec/layout.json and spec/trees.json are regression oracles pinned at the baseline commit and audited against the independent anchors in spec/anchors.json; they cannot be compared with the JAXA PDF offline",
    "line counts 1..3, both record types; texts and enum codes concrete; numeric leaves are integers standing for any number (float-specific behaviour: C20/C04.ad)",
    "CrossHair's dict model may reorder: member order is asserted by the concrete twin run (order does not depend on values)",
]
TRUSTED = ["z3 5.1", "CrossHair 0.0.110", "vlib.layout class models", "construct's own parsing of fixed-width fields"]

IMG_FUNCS = ["ceos_alos2.sar_image.metadata:transform_metadata", "ceos_alos2.sar_image.metadata:transform_line_metadata", "ceos_alos2.sar_image.metadata:extract_attrs",
             "ceos_alos2.sar_image.metadata:extract_shape", "ceos_alos2.sar_image.metadata:extract_format_type", "ceos_alos2.sar_image.metadata:deduplicate_attrs",
             "ceos_alos2.sar_image.metadata:apply_overrides", "ceos_alos2.transformers:as_group", "ceos_alos2.transformers:as_variable",
             "ceos_alos2.transformers:separate_attrs", "ceos_alos2.transformers:remove_spares", "ceos_alos2.transformers:item_type",
             "ceos_alos2.utils:rename", "ceos_alos2.utils:remove_nesting_layer", "ceos_alos2.dicttoolz:keysplit", "ceos_alos2.dicttoolz:dissoc",
             "ceos_alos2.dicttoolz:apply_to_items"]
STRUCTS = ["ceos_alos2.sar_image.file_descriptor:file_descriptor_record", "ceos_alos2.sar_image.signal_data:signal_data_record",
           "ceos_alos2.sar_image.processed_data:processed_data_record", "ceos_alos2.common:record_preamble"]


def obligations(tier):
    to = 300 if tier == "quick" else 900
    variants = ["image.15.n2", "image.11.n2", "image.11.n1"] if tier == "quick" else ["image.15.n2", "image.15.n3", "image.11.n2", "image.11.n1"]
    obs = [
        Ob("C03.lay", "L", "image file descriptor, signal-data and processed-data records: every field at its pinned offset/width for every record length; "
           "adapter chains, scale factors (1e-6, 1e-3 ...), units, enum tables, binary formats as pinned", STRUCTS,
           bounds="forall record lengths L (unbounded); 181 fields", call="props.lay:ob_layout",
           kwargs={"names": ["image_file_descriptor", "signal_data_record", "processed_data_record"]}),
        Ob("C03.anchors", "L", "720-byte descriptor; line-record prefixes of 544 (signal) and 192 (processed) bytes", STRUCTS, bounds="forall L",
           call="props.lay:ob_anchors", kwargs={"scope": "image"}),
        Ob("C03.ad", "X", "Factor: x*factor; Metadata: (x, attrs); Flag: x != 0; StripNullBytes", ["ceos_alos2.datatypes:Factor._decode", "ceos_alos2.datatypes:Metadata._decode",
           "ceos_alos2.sar_image.enums:Flag._decode", "ceos_alos2.datatypes:StripNullBytes._decode"], bounds="forall ints x, factor; flag < 2**32",
           harness="harness/h_adapters.py", func="simple_adapters_ok", timeout=to),
        Ob("C03.seq", "X", "both record types in one process: a level-1.1 and a level-1.5 file with equal record length and line count read in sequence are each split "
           "with their own record type's layout (nothing remembered between files)", ["ceos_alos2.sar_image.io:parse_chunk", "ceos_alos2.sar_image.io:read_metadata"],
           bounds="forall 12<=H1,H2<L; n in 0..3, rpc in 1..3", harness="harness/h_image.py", func="meta_seq_ok", state_witness=["meta_seq_ok(544, 192, 560)", "meta_seq_ok(192, 544, 560)"], params={"ns": [0, 1, 2, 3], "rpcs": [1, 2, 3]}, timeout=to),
        Ob("C03.ydms", "X", "per-line acquisition time: (year, day_of_year, ms) decodes to 1 January of the year + (day-1) days + ms, for every stamp incl. day 366 of leap years",
           ["ceos_alos2.datatypes:DatetimeYdms._decode"], bounds="forall year 2014..2049, doy 1..366, ms 0..86399999", harness="harness/h_time.py", func="ydms_ok", timeout=to),
        Ob("C03.ydus.live", "X", "the microsecond adapter object inside the live signal-data struct: date of THIS line's ms stamp + us, for consecutive lines/files with different dates "
           "(no state kept between calls)", ["ceos_alos2.datatypes:DatetimeYdus._decode", "ceos_alos2.sar_image.signal_data:signal_data_record"],
           bounds="forall us1, us2 < 86400000000; " + ("7 consecutive pairs" if tier == "quick" else "all 49 ordered pairs") + " of 7 reference dates",
           harness="harness/h_time.py", func="ydus_live_ok", params={"all_pairs": tier != "quick"}, timeout=3 * to),
        Ob("C03.hdr", "X", "header attributes (interleaving_id, valid_range=[0,max], burst counts) present exactly when the header field is non-blank, with its value; nothing else",
           ["ceos_alos2.sar_image.metadata:extract_attrs"], bounds="forall field values >= -1 (-1 = blank), interleaving blank or not",
           harness="harness/h_adapters.py", func="header_attrs_ok", timeout=to),
        Ob("C03.hdr.flow", "X", "the header attributes arrive on the image group built by transform_metadata exactly when their field is filled, for both sample types "
           "(level 1.1 complex and level 1.5 / 3.1 unsigned)", ["ceos_alos2.sar_image.metadata:transform_metadata", "ceos_alos2.sar_image.metadata:extract_attrs"],
           bounds="forall field values >= -1 (-1 = blank), interleaving blank or not, both type codes", harness="harness/h_adapters.py", func="header_flow_ok", timeout=to),
    ]
    obs += plumb_obligations("C03", variants, IMG_FUNCS, to, "every location of the image group (variables on rows in file order, units, per-file attributes, shape, byte ranges, "
                             "type code) carries exactly its pinned source field - for all field values")
    obs += [
        Ob("C03.order", "E", "concrete twin: variable order, coordinates list, attribute order as pinned", IMG_FUNCS, bounds="2 concrete token assignments per variant",
           call="props.plumb:ob_order", kwargs={"variants": variants}),
        Ob("C03.e2e", "E", "probe image files written from the pinned layout -> real read_metadata -> real transform_metadata: every followed field arrives where the pinned tree says",
           IMG_FUNCS + ["ceos_alos2.sar_image.io:read_metadata", "ceos_alos2.utils:to_dict"], bounds="concrete replay (not the deciding step): 2 lines, both record types",
           call="props.plumb:ob_e2e", kwargs={"families": ["image.15", "image.11"]}),
    ]
    return obs


def validate_stubs():
    from vlib import layout

    return {"layout_interpreter_vs_synth_leaves": layout.conformance()}
