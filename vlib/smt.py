"""Solver plumbing for the direct (non-CrossHair) obligations: query bookkeeping, vacuity, cross-solver check."""
import os
import subprocess
import tempfile
import time

import z3


def show_val(v):
    """printable python value of a model value; z3 strings are unescaped (\\u{XX} -> chr)"""
    import re as _re

    if z3.is_string_value(v):
        return _re.sub(r"\\u\{([0-9a-fA-F]+)\}", lambda m: chr(int(m.group(1), 16)), v.as_string())
    return str(v)


class Session:
    """collects the queries of one obligation and turns them into one verdict"""

    def __init__(self, timeout_ms=120000, cross=False):
        self.timeout_ms = timeout_ms
        self.cross = cross
        self.queries = 0
        self.rewritten = 0  # equalities already decided by z3's term rewriter (identical normal forms): no check-sat needed
        self.solver_s = 0.0
        self.unknown = []
        self.failed = []  # (label, model description)
        self.witnesses = []
        self.cross_results = []

    def _solver(self):
        s = z3.Solver()
        s.set("timeout", self.timeout_ms)
        seed = int(os.environ.get("VERIF_SEED", "0"))
        if seed:
            s.set("random_seed", seed % (2**31))
        return s

    def feasible(self, label, assumptions, show=()):
        """vacuity guard: the assumption set alone must be satisfiable; keeps a witness"""
        s = self._solver()
        s.add(*assumptions)
        t0 = time.time()
        r = s.check()
        self.solver_s += time.time() - t0
        self.queries += 1
        if r == z3.sat:
            m = s.model()
            self.witnesses.append({label: {str(v): show_val(m.eval(v, model_completion=True)) for v in show}})
            return True
        self.unknown.append(f"{label}: assumptions {r}")
        return False

    def holds(self, label, assumptions, claim, show=()):
        """claim must follow from assumptions (negation unsat)"""
        s = self._solver()
        s.add(*assumptions)
        s.add(z3.Not(claim))
        t0 = time.time()
        r = s.check()
        self.solver_s += time.time() - t0
        self.queries += 1
        if self.cross:
            self.cross_results.append((label, cross_check(s.to_smt2(), str(r))))
        if r == z3.unsat:
            return True
        if r == z3.sat:
            m = s.model()
            self.failed.append({"label": label, "model": {str(v): show_val(m.eval(v, model_completion=True)) for v in show}
                                or {str(d): str(m[d]) for d in m.decls()[:12]}})
            return False
        self.unknown.append(f"{label}: {r} ({s.reason_unknown()})")
        return None

    def exists(self, label, constraints, show=()):
        """returns model dict if sat, None if unsat; unknown recorded"""
        s = self._solver()
        s.add(*constraints)
        t0 = time.time()
        r = s.check()
        self.solver_s += time.time() - t0
        self.queries += 1
        if r == z3.sat:
            m = s.model()
            return {str(v): m.eval(v, model_completion=True) for v in show} or m
        if r == z3.unknown:
            self.unknown.append(f"{label}: unknown ({s.reason_unknown()})")
        return None

    def result(self, **extra):
        disagreements = [c for c in self.cross_results if c[1].get("disagree")]
        if self.unknown or disagreements:
            v = "inconclusive"
        elif self.failed:
            v = "violated"
        else:
            v = "discharged"
        out = {"verdict": v, "queries": self.queries, "solver_s": round(self.solver_s, 3)}
        if self.rewritten:
            out["decided_by_term_rewriting"] = self.rewritten
        if self.unknown:
            out["reason"] = "; ".join(self.unknown)[:600]
        if disagreements:
            out["reason"] = "solver disagreement: " + str(disagreements)[:600]
        if self.failed:
            out["cex"] = self.failed[:5]
        if self.witnesses:
            out["witness"] = self.witnesses[:3]
        if self.cross_results:
            out["cross_solver"] = {"queries": len(self.cross_results),
                                   "agree": sum(1 for c in self.cross_results if c[1].get("agree"))}
        out.update(extra)
        return out


def cross_check(smt2, z3_answer, timeout=60):
    """run the same query through the cvc5 binary and the system z3 4.8.12; 'unknown'/timeouts tolerated"""
    res = {}
    with tempfile.NamedTemporaryFile("w", suffix=".smt2", delete=False, dir="/verif/build" if os.path.isdir("/verif/build") else None) as f:
        f.write(smt2 + "\n(check-sat)\n" if "(check-sat)" not in smt2 else smt2)
        path = f.name
    try:
        for name, cmd in (("cvc5", ["cvc5", "--tlimit", str(timeout * 1000), path]), ("z3-4.8", ["/usr/bin/z3", f"-T:{timeout}", path])):
            try:
                p = subprocess.run(cmd, capture_output=True, text=True, timeout=timeout + 10)
                out = p.stdout.strip().splitlines()
                ans = out[0].strip() if out else "error"
                if "(error" in p.stdout or ans not in ("sat", "unsat", "unknown"):
                    ans = "unknown"
            except (subprocess.TimeoutExpired, FileNotFoundError):
                ans = "unknown"
            res[name] = ans
    finally:
        os.unlink(path)
    answers = [a for a in res.values() if a in ("sat", "unsat")]
    res["agree"] = all(a == z3_answer for a in answers)
    res["disagree"] = any(a != z3_answer for a in answers)
    return res
