"""Pure-python model of the handful of numpy operations used by sar_image/caching/{encoders,decoders}.py  (library boundary).

Elements are python values - ints may be CrossHair symbolic ints, so integer/time arithmetic of the codec is decided by the
solver instead of being sampled.  int64 wrap-around and NaT propagation of datetime64/timedelta64 arithmetic are explicit.
Every operation not listed raises Unsupported (-> inconclusive, never a verdict).  `conformance()` compares the model with the
real numpy on concrete arrays of every kind/rank on every run, including the error behaviour.
"""
NAT = -(2**63)
UNIT_NS = {"D": 86400 * 10**9, "h": 3600 * 10**9, "m": 60 * 10**9, "s": 10**9, "ms": 10**6, "us": 10**3, "ns": 1}
INT_BITS = {"int8": 8, "int16": 16, "int32": 32, "int64": 64, "uint8": 8, "uint16": 16, "uint32": 32, "uint64": 64}


class Unsupported(Exception):
    pass


def wrap64(v):
    return (v + 2**63) % 2**64 - 2**63


class DType:
    def __init__(self, name):
        if isinstance(name, DType):
            name = name.name
        name = {"int": "int64", "float": "float64", "i8": "int64", "<i8": "int64", "<f8": "float64", "f8": "float64", "?": "bool",
                "timedelta64[D]": "timedelta64[D]"}.get(name, name)
        self.name = name
        if name.startswith("datetime64["):
            self.kind, self.unit = "M", name[11:-1]
        elif name.startswith("timedelta64["):
            self.kind, self.unit = "m", name[12:-1]
        elif name in INT_BITS:
            self.kind, self.unit = ("u" if name[0] == "u" else "i"), None
        elif name in ("float64", "float32"):
            self.kind, self.unit = "f", None
        elif name in ("complex64", "complex128"):
            self.kind, self.unit = "c", None
        elif name == "bool":
            self.kind, self.unit = "b", None
        elif name.startswith("<U") or name.startswith("U") or name == "str":
            self.kind, self.unit = "U", None
        else:
            raise Unsupported(f"dtype {name!r}")
        if self.unit is not None and self.unit not in UNIT_NS:
            raise Unsupported(f"unit {self.unit!r}")

    def __str__(self):
        return self.name

    __repr__ = __str__

    def __eq__(self, other):
        return str(other) == self.name

    def __hash__(self):
        return hash(self.name)


def f64_round_int(x):
    """the integer value of float64(x) for an integer |x| < 2**63 (round to nearest, ties to even) - integer arithmetic only, so x may be symbolic"""
    a = x if x >= 0 else -x
    if a < 2**53:
        return x
    for k in range(53, 64):
        if a < 2**(k + 1):
            q = 2**(k - 52)
            r = a % q
            base = a - r
            if r * 2 > q or (r * 2 == q and (base // q) % 2 == 1):
                base += q
            return base if x >= 0 else -base
    raise Unsupported("integer beyond 64 bits")


def _flatten(x, shape_out):
    """nested lists -> (shape, flat list)"""
    if isinstance(x, (list, tuple)):
        subs = [_flatten(v, None) for v in x]
        if not subs:
            return (0,), []
        sh = subs[0][0]
        for s, _ in subs:
            if s != sh:
                raise ValueError("setting an array element with a sequence. The requested array has an inhomogeneous shape")
        flat = []
        for _, f in subs:
            flat.extend(f)
        return (len(x),) + sh, flat
    return (), [x]


def _nest(shape, flat):
    if shape == ():
        return flat[0]
    if len(shape) == 1:
        return list(flat)
    step = 1
    for s in shape[1:]:
        step *= s
    return [_nest(shape[1:], flat[i * step:(i + 1) * step]) for i in range(shape[0])]


class Arr:
    def __init__(self, dtype, shape, flat):
        self.dtype, self.shape, self.flat = DType(dtype), tuple(shape), list(flat)

    @property
    def size(self):
        return len(self.flat)

    @property
    def ndim(self):
        return len(self.shape)

    def ravel(self):
        return Arr(self.dtype, (len(self.flat),), self.flat)

    flatten = ravel

    def reshape(self, *shape):
        shape = tuple(shape[0]) if len(shape) == 1 and isinstance(shape[0], (tuple, list)) else tuple(shape)
        n = 1
        for s in shape:
            n *= s
        if -1 in shape:
            raise Unsupported("reshape -1")
        if n != len(self.flat):
            raise ValueError("cannot reshape array")
        return Arr(self.dtype, shape, self.flat)

    def tolist(self):
        if self.dtype.kind in "Mm":
            raise Unsupported("tolist on time arrays")
        return _nest(self.shape, self.flat)

    def astype(self, dt):
        dt = DType(dt)
        if getattr(self, "int_valued", False) and dt.name == "int64":
            # float64 array known to hold integer values (None = nan): the C cast gives the integer when it fits, min int64 otherwise / for nan
            return Arr("int64", self.shape, [NAT if (v is None or not -2**63 <= v < 2**63) else v for v in self.flat])
        if self.dtype.kind in "Mm" and dt.name == "int64":
            return Arr("int64", self.shape, self.flat)  # reinterpretation: NaT -> min int64
        if self.dtype.kind in "Mm" and dt.name == "uint64":
            return Arr("uint64", self.shape, [v % 2**64 for v in self.flat])  # C cast of the int64 count: negative values wrap
        if self.dtype.kind in "iub" and dt.kind in "iu":
            bits = INT_BITS[dt.name]
            if dt.kind == "i":
                return Arr(dt, self.shape, [(int(v) + 2**(bits - 1)) % 2**bits - 2**(bits - 1) for v in self.flat])
            return Arr(dt, self.shape, [int(v) % 2**bits for v in self.flat])
        if self.dtype.kind == "m" and dt.kind == "m":
            f, r = divmod(UNIT_NS[self.dtype.unit], UNIT_NS[dt.unit])
            if r:
                raise Unsupported("coarsening timedelta cast")
            return Arr(dt, self.shape, [NAT if v == NAT else wrap64(v * f) for v in self.flat])
        raise Unsupported(f"astype {self.dtype} -> {dt}")

    def __getitem__(self, key):
        if isinstance(key, Arr) and key.dtype.kind == "b":
            if key.shape != self.shape:
                raise IndexError("boolean index did not match")
            return Arr(self.dtype, (sum(1 for k in key.flat if k),), [v for v, k in zip(self.flat, key.flat) if k])
        if isinstance(key, int):
            if self.shape == ():
                raise IndexError("too many indices for array: array is 0-dimensional, but 1 were indexed")
            n = self.shape[0]
            if not -n <= key < n:
                raise IndexError(f"index {key} is out of bounds for axis 0 with size {n}")
            step = len(self.flat) // n if n else 0
            k = key % n
            return Arr(self.dtype, self.shape[1:], self.flat[k * step:(k + 1) * step])
        raise Unsupported(f"index {key!r}")

    def __invert__(self):
        if self.dtype.kind != "b":
            raise Unsupported("~ on non-bool")
        return Arr("bool", self.shape, [not v for v in self.flat])

    def _bin(self, other, op):
        if not isinstance(other, Arr):
            raise Unsupported(f"operand {type(other).__name__}")
        if other.shape == ():
            of = other.flat * len(self.flat)
            shape = self.shape
            sf = self.flat
        elif self.shape == ():
            sf = self.flat * len(other.flat)
            of, shape = other.flat, other.shape
        elif self.shape == other.shape:
            sf, of, shape = self.flat, other.flat, self.shape
        else:
            raise Unsupported("broadcasting")
        return shape, [NAT if (a == NAT or b == NAT) else wrap64(op(a, b)) for a, b in zip(sf, of)]

    def __truediv__(self, other):
        """timedelta array / one unit of itself -> float64 (numpy converts the int64 counts to float64: values beyond 2**53 are rounded)"""
        if self.dtype.kind == "m" and isinstance(other, Arr) and other.dtype.kind == "m" and other.shape == ():
            b = other.flat[0]
            if b == NAT or b * UNIT_NS[other.dtype.unit] != UNIT_NS[self.dtype.unit]:
                raise Unsupported("timedelta division by anything but one unit of the dividend")
            out = Arr("float64", self.shape, [None if v == NAT else f64_round_int(v) for v in self.flat])
            out.int_valued = True
            return out
        raise Unsupported("truediv")

    def __sub__(self, other):
        if self.dtype.kind == "M" and isinstance(other, Arr) and other.dtype.kind == "M":
            if self.dtype.unit != other.dtype.unit:
                raise Unsupported("mixed units")
            shape, flat = self._bin(other, lambda a, b: a - b)
            return Arr(f"timedelta64[{self.dtype.unit}]", shape, flat)
        raise Unsupported("sub")

    def __add__(self, other):
        if isinstance(other, Arr) and {self.dtype.kind, other.dtype.kind} == {"M", "m"}:
            if self.dtype.unit != other.dtype.unit:
                # numpy promotes to the finer unit
                a, b = (self, other)
                fine = a.dtype.unit if UNIT_NS[a.dtype.unit] <= UNIT_NS[b.dtype.unit] else b.dtype.unit
                fa, fb = UNIT_NS[a.dtype.unit] // UNIT_NS[fine], UNIT_NS[b.dtype.unit] // UNIT_NS[fine]
                a = Arr(a.dtype.name.replace(a.dtype.unit, fine), a.shape, [NAT if v == NAT else wrap64(v * fa) for v in a.flat])
                b = Arr(b.dtype.name.replace(b.dtype.unit, fine), b.shape, [NAT if v == NAT else wrap64(v * fb) for v in b.flat])
                return a + b
            shape, flat = self._bin(other, lambda a, b: a + b)
            return Arr(f"datetime64[{self.dtype.unit}]", shape, flat)
        raise Unsupported("add")

    __radd__ = __add__

    def __str__(self):
        if self.dtype.kind == "M" and self.shape == ():
            return RefText(self.flat[0], self.dtype.unit)
        raise Unsupported("str of array")


class RefText(str):
    """str(np.datetime64) of one instant: carries (value, unit); numpy prints at the unit's resolution and re-parses exactly
    (contract validated in conformance on boundary instants)"""

    def __new__(cls, value, unit):
        o = super().__new__(cls, f"<datetime64 {unit}>")
        o.value, o.unit = value, unit
        return o


def _kind_of(v):
    if isinstance(v, bool):
        return "b"
    if isinstance(v, int):
        return "i"
    if isinstance(v, float):
        return "f"
    if isinstance(v, str):
        return "U"
    raise Unsupported(f"element {type(v).__name__}")


class NP:
    """module object standing for `np` in the codec modules"""

    Arr = Arr

    @staticmethod
    def dtype(name):
        return DType(name)

    @staticmethod
    def datetime_data(dt):
        dt = DType(dt)
        if dt.kind not in "Mm":
            raise TypeError("cannot get datetime metadata from non-datetime type")
        return dt.unit, 1

    @staticmethod
    def isnat(a):
        if a.dtype.kind not in "Mm":
            raise TypeError("ufunc 'isnat' is only defined for np.datetime64 and np.timedelta64.")
        return Arr("bool", a.shape, [v == NAT for v in a.flat])

    @staticmethod
    def datetime64(value, unit):
        return Arr(f"datetime64[{unit}]", (), [value])

    @staticmethod
    def timedelta64(value, unit):
        return Arr(f"timedelta64[{unit}]", (), [value])

    @staticmethod
    def asarray(x, dtype=None):
        if isinstance(x, Arr) and dtype is None:
            return x
        return NP.array(x, dtype=dtype)

    @staticmethod
    def atleast_1d(x):
        a = NP.asarray(x)
        return a if a.shape != () else Arr(a.dtype, (1,), a.flat)

    @staticmethod
    def atleast_2d(x):
        a = NP.asarray(x)
        if len(a.shape) >= 2:
            return a
        return Arr(a.dtype, (1, 1) if a.shape == () else (1,) + a.shape, a.flat)

    @staticmethod
    def ravel(x):
        a = NP.asarray(x)
        return Arr(a.dtype, (len(a.flat),), a.flat)

    @staticmethod
    def squeeze(x):
        a = NP.asarray(x)
        return Arr(a.dtype, tuple(s for s in a.shape if s != 1), a.flat)

    @staticmethod
    def array(x, dtype=None):
        if isinstance(x, Arr):
            if dtype is None or DType(dtype) == x.dtype:
                return Arr(x.dtype, x.shape, x.flat)
            return x.astype(dtype)
        if isinstance(x, RefText):
            dt = DType(dtype)
            if dt.kind != "M":
                raise Unsupported("reference text into non-datetime")
            if dt.unit == x.unit:
                return Arr(dt, (), [x.value])
            f, r = divmod(UNIT_NS[x.unit], UNIT_NS[dt.unit])
            if r:
                raise Unsupported("coarser reference unit")
            return Arr(dt, (), [NAT if x.value == NAT else wrap64(x.value * f)])
        shape, flat = _flatten(x, None)
        if dtype is None:
            kinds = {_kind_of(v) for v in flat}
            if not kinds:
                dt = DType("float64")
            elif kinds == {"b"}:
                dt = DType("bool")
            elif kinds <= {"b", "i"}:
                dt = DType("int64")
                flat = [int(v) for v in flat]
            elif kinds <= {"b", "i", "f"}:
                dt = DType("float64")
                flat = [float(v) for v in flat]
            elif kinds == {"U"}:
                dt = DType("<U%d" % max(len(v) for v in flat))
            else:
                raise Unsupported(f"mixed kinds {kinds}")
            return Arr(dt, shape, flat)
        dt = DType(dtype)
        if dt.kind in "Mm":
            for v in flat:
                if isinstance(v, bool) or not isinstance(v, int):
                    raise Unsupported("time array from non-int")
                if not -2**63 <= v < 2**63:
                    raise OverflowError("Python int too large to convert to C long")
            return Arr(dt, shape, flat)
        if dt.kind in "iu":
            bits = INT_BITS[dt.name]
            lo, hi = (-(2**(bits - 1)), 2**(bits - 1)) if dt.kind == "i" else (0, 2**bits)
            for v in flat:
                if isinstance(v, float):
                    raise Unsupported("float into int array")
                if not lo <= int(v) < hi:
                    raise OverflowError("Python integer out of bounds for " + dt.name)
            return Arr(dt, shape, [int(v) for v in flat])
        if dt.kind == "b":
            return Arr(dt, shape, [bool(v) for v in flat])
        if dt.kind == "f":
            return Arr(dt, shape, [float(v) for v in flat])
        if dt.kind == "U":
            return Arr(dt, shape, [str(v) for v in flat])
        raise Unsupported(f"array of {dt}")


def same(a, b):
    return isinstance(a, Arr) and isinstance(b, Arr) and a.dtype == b.dtype and a.shape == b.shape and a.flat == b.flat


def conformance():
    """differential test of the model against the real numpy through the REAL encoder/decoder on concrete arrays"""
    import json

    import numpy as np

    from ceos_alos2.sar_image.caching import decoders as DEC
    from ceos_alos2.sar_image.caching import encoders as ENC

    nat = np.datetime64("NaT")
    samples = []
    for unit in ("ns", "us", "ms", "s", "D"):
        big = {"ns": 2**62, "us": 2**50, "ms": 2**45, "s": 2**36, "D": 2**20}[unit]
        vals = [0, 1, -1, big, -big, 1570000000]
        samples.append(np.array(vals[:3], dtype=f"datetime64[{unit}]"))
        samples.append(np.array([vals, vals[::-1]], dtype=f"datetime64[{unit}]"))
        samples.append(np.array(vals[3], dtype=f"datetime64[{unit}]"))
        a = np.array(vals, dtype=f"datetime64[{unit}]")
        a[0] = nat
        a[3] = nat
        samples.append(a)
        samples.append(np.array([nat, nat], dtype=f"datetime64[{unit}]"))
        samples.append(np.array(vals, dtype=f"timedelta64[{unit}]"))
        samples.append(np.array([[NAT, 5]], dtype=f"timedelta64[{unit}]"))
    samples += [np.array([1, 2**63 - 1, -2**63]), np.array([[True, False]]), np.array(5), np.array([1.5, float("nan"), float("inf")]),
                np.array(["a", "°é"]), np.array([], dtype="float64"), np.array([1, 2], dtype="uint16"), np.array([[1], [2]], dtype="int32")]
    n = 0
    for a in samples:
        # the codec under test may itself fail on a sample (that is for the obligations to find): model and numpy must then fail alike
        try:
            real_enc = ENC.encode_array(a)
            real_dec = DEC.decode_array(json.loads(json.dumps(ENC.preprocess(real_enc)), object_hook=DEC.postprocess), records_per_chunk=1)
            real_err = None
        except (OverflowError, ValueError, TypeError) as e:
            real_err = type(e).__name__
        if real_err is not None:
            model = Arr(str(a.dtype), a.shape, (a.astype("int64") if a.dtype.kind in "Mm" else a).ravel().tolist())
            saved = (ENC.np, DEC.np)
            ENC.np = DEC.np = NP
            try:
                enc = ENC.encode_array(model)
                DEC.decode_array(dict(enc, data=enc["data"]), records_per_chunk=1)
                model_err = None
            except (OverflowError, ValueError, TypeError) as e:
                model_err = type(e).__name__
            except Unsupported:
                model_err = real_err  # outside the model: nothing to compare
            finally:
                ENC.np, DEC.np = saved
            if model_err != real_err:
                raise AssertionError(f"numpy model mismatch on {a!r}: the real codec raises {real_err}, under the model {model_err}")
            n += 1
            continue
        if a.dtype.kind in "Mm":
            model = Arr(str(a.dtype), a.shape, a.astype("int64").ravel().tolist())
        else:
            model = Arr(str(a.dtype), a.shape, a.ravel().tolist())
        saved = (ENC.np, DEC.np)
        ENC.np = DEC.np = NP
        try:
            enc = ENC.encode_array(model)
            dec = DEC.decode_array(dict(enc, data=enc["data"]), records_per_chunk=1)
        finally:
            ENC.np, DEC.np = saved
        want_flat = real_dec.astype("int64").ravel().tolist() if real_dec.dtype.kind in "Mm" else real_dec.ravel().tolist()
        ok = (str(dec.dtype) == str(real_dec.dtype) and dec.shape == real_dec.shape and repr(dec.flat) == repr(want_flat)
              and enc["dtype"] == real_enc["dtype"] and repr(enc["data"]) == repr(real_enc["data"])
              and enc["encoding"].get("units") == real_enc["encoding"].get("units"))
        if not ok:
            raise AssertionError(f"numpy model mismatch on {a!r}: model enc={enc} dec={dec.dtype}{dec.shape}{dec.flat} real enc={real_enc} dec={real_dec!r}")
        # the reference text numpy prints re-parses to the same instant
        if a.dtype.kind == "M":
            ref = real_enc["encoding"]["reference"]
            if np.array(ref, dtype=a.dtype) != np.datetime64(ref):
                raise AssertionError("reference text does not round-trip")
        n += 1
    m = 0
    for x in [0, 1, -1, 2**53 - 1, 2**53, 2**53 + 1, 2**53 + 2, 2**53 + 3, 2**54 + 2, 2**54 + 6, 2**60 + 2**7, 2**60 + 2**7 + 1, 2**62 - 1, -(2**62) + 1, -(2**53) - 1, -(2**53) - 3,
              1234567890123456789, 2**63 - 1025, 2**63 - 1, -(2**63) + 1]:
        if f64_round_int(x) != int(float(x)):
            raise AssertionError(f"f64_round_int({x}) = {f64_round_int(x)} but float64 gives {int(float(x))}")
        if abs(x) < 2**62:
            real = (np.array([x, NAT], dtype="timedelta64[us]") / np.timedelta64(1, "us"))
            with np.errstate(invalid="ignore"):
                real_i = real.astype("int64").tolist()
            mine = (Arr("timedelta64[us]", (2,), [x, NAT]) / NP.timedelta64(1, "us")).astype("int64").flat
            if real_i != mine:
                raise AssertionError(f"timedelta division model: numpy {real_i} model {mine}")
        m += 1
    for v in (-1, -5, NAT + 1):
        real_u = np.array([v, 3], dtype="timedelta64[ms]").astype("uint64").tolist()
        mine_u = Arr("timedelta64[ms]", (2,), [v, 3]).astype("uint64").flat
        if real_u != mine_u:
            raise AssertionError(f"uint64 cast of timedelta: numpy {real_u} model {mine_u}")
        for lib, arr in ((np, lambda x: np.array(x, dtype="timedelta64[ms]")), (NP, lambda x: NP.array(x, dtype="timedelta64[ms]"))):
            try:
                arr(real_u)
                raise AssertionError(f"{lib}: a count beyond int64 was accepted into a timedelta array")
            except OverflowError:
                pass
        m += 1
    return {"numpy model vs real numpy through the real codec (arrays)": n, "float64 rounding of integers / timedelta division vs numpy": m}
