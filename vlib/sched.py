"""Engine S - schedules (C19).

1. RECORD: the real load path (xr.Variable -> LazilyIndexedArray -> LazilyIndexedWrapper.__getitem__ -> explicit_indexing_adapter ->
   _raw_indexing_method -> Array.__getitem__) is executed once per load, sequentially, on an instrumented in-memory filesystem, with
   the lock object the real code created wrapped by a logging/gating proxy (event label = identity of the underlying mutual-exclusion object) and an instrumented
   Array subclass that logs every attribute read/write.  Result per load: its event program
       acquire(lock) | release(lock) | open(handle) | seek(handle) | read(handle) | close(handle) | get(obj.attr) | set(obj.attr)
   with the IDENTITY of locks, handles and objects as observed.
2. SOLVE: z3 looks for a global order of all events (one integer time per event) that respects program order and lock exclusion and
   contains a hazard: a foreign seek/read/close on a handle between a load's seek and its read (or a foreign close before a load's
   use of its handle), or a conflicting access (one of them a write) to the same attribute of the same object by two loads that no
   common lock separates.  unsat = every interleaving gives each read the span the sequential run gave it.
3. REPLAY: a model is turned into a schedule and executed with real threads whose filesystem/lock operations are gated in that
   order; only a schedule that makes a load return different values (or raise) is reported.
Bounds: 2-3 loads, the recorded selections; event programs are assumed not to depend on the interleaving (straight-line code).
"""
import pickle
import threading

import numpy as np
import z3

_REG = {}


class GateFS:
    """in-memory filesystem; every file operation is logged and can be gated by a controller"""

    def __init__(self, files, key=None, shared=False):
        self.key = key or f"fs{len(_REG)}"
        _REG[self.key] = self
        self.files = files
        self.handles = 0
        # shared=True models fsspec's MemoryFileSystem: every open of a path returns the SAME file object, rewound, and close() does not
        # close it - concurrent loads of one image then share one file position (validated against fsspec in props/c19.validate_stubs)
        self.shared = shared
        self.shared_files = {}
        self.ctl = None  # Controller during replay
        self.rec = None  # Recorder during recording
        self.lock = threading.Lock()

    def __reduce__(self):
        return (_lookup, (self.key,))

    def open(self, url, mode="rb", **kw):
        if url not in self.files:
            raise FileNotFoundError(url)
        if self.shared:
            with self.lock:
                f = self.shared_files.setdefault(url, GateFile(self, url, "shared"))
            self._event(("open", f.ident()))
            f.pos = 0
            return f
        with self.lock:
            self.handles += 1
            hid = self.handles
        f = GateFile(self, url, hid)
        self._event(("open", f.ident()))
        return f

    def _event(self, ev):
        if self.ctl is not None:
            self.ctl.gate(ev)
        if self.rec is not None:
            self.rec.log(ev)


def _lookup(key):
    return _REG[key]


class GateFile:
    def __init__(self, fs, url, hid):
        self.fs, self.url, self.hid, self.pos, self.closed = fs, url, hid, 0, False

    def ident(self):
        return f"{self.url}#{self.hid}"

    def seek(self, o, whence=0):
        self.fs._event(("seek", self.ident(), o))
        if self.closed:
            raise ValueError("seek of closed file")
        self.pos = o
        return o

    def read(self, n=-1):
        self.fs._event(("read", self.ident(), n))
        if self.closed:
            raise ValueError("read of closed file")
        data = self.fs.files[self.url]
        out = data[self.pos:] if n is None or n < 0 else data[self.pos:self.pos + n]
        self.pos += len(out)
        return out

    def close(self):
        if self.fs.shared:
            return  # MemoryFile.close() keeps the object usable
        self.fs._event(("close", self.ident()))
        self.closed = True

    def __enter__(self):
        return self

    def __exit__(self, *a):
        self.close()
        return False


class Recorder:
    def __init__(self):
        self.events = []
        self.names = {}

    def log(self, ev):
        self.events.append(ev)

    def name(self, obj, kind):
        k = id(obj)
        if k not in self.names:
            self.names[k] = f"{kind}{len([v for v in self.names.values() if v.startswith(kind)])}"
        return self.names[k]


_TLS = threading.local()
_CURRENT = {"rec": None, "ctl": None}


def _rec():
    return _CURRENT["rec"]


from ceos_alos2.array import Array  # noqa: E402


class LockProxy:
    """wraps the lock object the REAL code created (whatever its class): same blocking behaviour, events logged / gated around it.
    The event label names the underlying mutual-exclusion object, so two wrappers exclude each other in the encoding exactly when the
    real objects do (a pickled copy shares it iff the lock's own pickling protocol says so)."""

    def __init__(self, real):
        self.real = real

    def _ev(self, what):
        inner = getattr(self.real, "lock", self.real)
        names = _CURRENT.setdefault("locknames", {})
        ev = (what, names.setdefault(id(inner), f"lock:L{len(names)}"))  # setup() pre-names the locks after the first variable holding them
        if _CURRENT["ctl"] is not None:
            _CURRENT["ctl"].gate(ev)
        if _rec() is not None:
            _rec().log(ev)

    def acquire(self, *a, **k):
        self._ev("acquire")
        return self.real.acquire(*a, **k)

    def release(self, *a, **k):
        r = self.real.release(*a, **k)
        self._ev("release")
        return r

    def __enter__(self):
        self._ev("acquire")
        return self.real.__enter__()

    def __exit__(self, *a):
        r = self.real.__exit__(*a)
        self._ev("release")
        return r

    def locked(self):
        return self.real.locked()


def is_exclusive(lock):
    """does this lock object actually exclude a second holder?  (held here, a non-blocking acquire from another thread must fail);
    a lock that lets everybody in (e.g. xarray's DummyLock) gives no ordering constraint in the encoding"""
    out = []

    def probe():
        try:
            r = lock.acquire(False)
        except TypeError:
            r = lock.acquire()
        out.append(r)
        if r is not False:
            try:
                lock.release()
            except Exception:  # noqa: BLE001
                pass

    lock.acquire()
    try:
        t = threading.Thread(target=probe, daemon=True)
        t.start()
        t.join(timeout=5)
    finally:
        lock.release()
    return out == [False] or not out  # not out: the probe blocked (a lock without non-blocking mode): exclusive


def instrument_lock(variable):
    """replace the lock held by the backend wrapper of an xarray variable by a LockProxy around it"""
    obj = variable._data
    for _ in range(6):
        if hasattr(obj, "lock"):
            if not isinstance(obj.lock, LockProxy):
                obj.lock = LockProxy(obj.lock)
            return True
        obj = getattr(obj, "array", None)
        if obj is None:
            break
    return False  # the real code holds no lock here: nothing to trace (the loads are then unconstrained in the encoding)


class TracedArray(Array):
    """logs attribute reads/writes of the shared Array object during a load"""

    def __getattribute__(self, name):
        if not name.startswith("__") and _rec() is not None and name in object.__getattribute__(self, "__dict__"):
            _rec().log(("get", f"array:{object.__getattribute__(self, 'url')}.{name}"))
        return object.__getattribute__(self, name)

    def __setattr__(self, name, value):
        if _rec() is not None:
            _rec().log(("set", f"array:{self.__dict__.get('url')}.{name}"))
        object.__setattr__(self, name, value)


TracedArray.__hash__ = Array.__hash__


def make_traced_array():
    return TracedArray


# ------------------------------------------------------------------------------------------------ scenario construction


def build_image(fs, url, n=4, pixels=3, H=12, seed=1, rpc=2, array_cls=None):
    """a small IU2 image file in fs + the Array describing it (as open_image would)"""
    rng = np.random.default_rng(seed)
    data = rng.integers(0, 65536, size=(n, pixels)).astype(">u2")
    L = H + pixels * 2
    raw = bytes(720)
    for i in range(n):
        raw += bytes([i + 1] * H) + data[i].tobytes()
    fs.files[url] = raw
    br = [(720 + i * L + H, 720 + (i + 1) * L) for i in range(n)]
    arr = array_cls(fs=fs, url=url, byte_ranges=br, shape=(n, pixels), dtype="uint16", type_code="IU2", records_per_chunk=rpc)
    return arr, data.astype("uint16")


def to_xr(arr):
    """the real conversion (creates the lock the way the real code does)"""
    from ceos_alos2 import xarray as X
    from ceos_alos2.hierarchy import Group, Variable

    # through the conversion of a whole group with the default chunks=None, as open_alos2 does for every image group
    ds = X.to_dataset(Group("/imagery/X", None, {"data": Variable(["rows", "columns"], arr, {})}, {}))
    return ds.variables["data"]


SCENARIOS = {
    "same-variable/different-chunks": [("a", slice(0, 2)), ("a", slice(2, 4))],
    "same-variable/same-chunk": [("a", slice(0, 1)), ("a", slice(1, 2))],
    "same-variable/overlapping": [("a", slice(0, 3)), ("a", slice(1, 4))],
    "different-variables": [("a", slice(0, 2)), ("b", slice(1, 3))],
    "pickled-copy": [("a", slice(0, 2)), ("a_copy", slice(0, 2))],
    "three-loads": [("a", slice(0, 2)), ("b", slice(0, 4)), ("a", slice(1, 3))],
    "three-variables": [("a", slice(0, 2)), ("b", slice(2, 4)), ("c", slice(1, 3))],
    # the same scenarios on a filesystem whose opens of one path share one file object / position (fsspec memory://)
    "same-variable/same-chunk@shared-handle": [("a", slice(0, 1)), ("a", slice(1, 2))],
    "same-variable/different-chunks@shared-handle": [("a", slice(0, 2)), ("a", slice(2, 4))],
    "pickled-copy@shared-handle": [("a", slice(0, 2)), ("a_copy", slice(2, 4))],
    "different-variables@shared-handle": [("a", slice(0, 2)), ("b", slice(1, 3))],
    # selections xarray hands over as outer (list) indexers, against a slice load of the same variable
    "list-selection@shared-handle": [("a", slice(2, 4)), ("a", [3, 0])],
    "list-selection.pickled-copy@shared-handle": [("a", [0, 2]), ("a_copy", [3, 1])],
    # a load that fails (damaged file) next to loads of intact lines of the same image: the others still finish with their values
    "failed-load": [("t", slice(2, 4)), ("t", slice(0, 2)), ("t", slice(1, 2))],
}
ISOLATED = {"failed-load"}  # each load's program is recorded on a fresh setup (a load that fails must not be able to block the recording)


def _sel(sl):
    return f"{sl.start}:{sl.stop}" if isinstance(sl, slice) else str(sl)


def setup(names_needed, shared=False):
    """fresh filesystem, arrays and xarray variables for one scenario; the real code creates the (traced) locks"""
    from ceos_alos2 import xarray as X

    TracedArray = make_traced_array()
    fs = GateFS({}, shared=shared)
    _CURRENT["locknames"] = {}
    arrs, datas, variables = {}, {}, {}
    for i, nm in enumerate(("a", "b", "c")):
        arrs[nm], datas[nm] = build_image(fs, f"IMG-{nm}", seed=i + 1, array_cls=TracedArray)
        variables[nm] = to_xr(arrs[nm])  # the real conversion creates the real lock
    if "a_copy" in names_needed:
        variables["a_copy"] = pickle.loads(pickle.dumps(variables["a"]))  # pickled with the real lock inside (its own protocol)
        datas["a_copy"] = datas["a"]
    if "t" in names_needed:
        # an image file cut in the middle of its last line record: loading that line raises (single-threaded too)
        arrs["t"], datas["t"] = build_image(fs, "IMG-t", seed=9, array_cls=TracedArray)
        fs.files["IMG-t"] = fs.files["IMG-t"][:-4]
        variables["t"] = to_xr(arrs["t"])
    for nm, v in variables.items():
        if instrument_lock(v):
            obj = v._data
            while not isinstance(getattr(obj, "lock", None), LockProxy):
                obj = obj.array
            inner = getattr(obj.lock.real, "lock", obj.lock.real)
            # the same name in every setup of this scenario; an object that does not exclude is named so that the encoding ignores it
            _CURRENT["locknames"].setdefault(id(inner), (f"lock:{nm}" if is_exclusive(obj.lock.real) else f"nolock:{nm}#{len(_CURRENT['locknames'])}"))
    return fs, variables, datas


def record(scenario):
    """sequential runs -> list of event programs (one per load) + the sequential results"""
    loads = SCENARIOS[scenario]
    fs, variables, datas = setup({nm for nm, _ in loads}, shared=scenario.endswith("@shared-handle"))
    programs, results = [], []
    for nm, sl in loads:
        if scenario in ISOLATED:
            fs, variables, datas = setup({nm for nm, _ in loads}, shared=scenario.endswith("@shared-handle"))
        rec = Recorder()
        fs.rec = rec
        _CURRENT["rec"] = rec
        try:
            out = np.asarray(variables[nm][sl].values)
        except Exception as e:  # noqa: BLE001 - the single-threaded outcome of this load is an exception
            out = ("raised", type(e).__name__)
        finally:
            fs.rec = None
            _CURRENT["rec"] = None
        events = rec.events
        if scenario in ISOLATED and not scenario.endswith("@shared-handle"):
            # recorded on a fresh filesystem each: handle numbers restart, but in one process every open gets its own handle
            events = [(e[0], f"{e[1]}@load{len(programs)}") + tuple(e[2:]) if e[0] in ("open", "seek", "read", "close") else e for e in events]
        programs.append(events)
        results.append(out)
        if isinstance(out, tuple):
            if nm != "t" or (sl.stop or 0) < 4:
                raise AssertionError(f"sequential load of {nm}[{sl}] raised {out[1]}")
            continue
        want = datas[nm][sl]
        if not np.array_equal(out, want):
            raise AssertionError(f"sequential load of {nm}[{sl}] does not return the stored samples")
    return programs, results


# ------------------------------------------------------------------------------------------------ encoding


def encode(programs):
    """-> (solver constraints, hazard disjunction, time variables)"""
    T = [[z3.Int(f"t_{i}_{k}") for k in range(len(p))] for i, p in enumerate(programs)]
    cons = []
    allv = [v for row in T for v in row]
    cons.append(z3.Distinct(*allv) if len(allv) > 1 else z3.BoolVal(True))
    for row in T:
        for v in row:
            cons += [v >= 0, v < len(allv)]
        for a, b in zip(row, row[1:]):
            cons.append(a < b)
    # critical sections per lock
    sections = []  # (thread, lock, t_acquire, t_release)
    for i, p in enumerate(programs):
        open_ = {}
        for k, ev in enumerate(p):
            if ev[0] in ("acquire", "release") and str(ev[1]).startswith("nolock:"):
                continue  # an object with the lock interface that does not exclude anybody
            if ev[0] == "acquire":
                open_[ev[1]] = k
            elif ev[0] == "release" and ev[1] in open_:
                sections.append((i, ev[1], open_.pop(ev[1]), k))
    unreleased = []  # (thread, lock, t_acquire): the load ended (e.g. by an exception) still holding the lock
    for i, p in enumerate(programs):
        held = {}
        for k, ev in enumerate(p):
            if str(ev[1]).startswith("nolock:"):
                continue
            if ev[0] == "acquire":
                held[ev[1]] = k
            elif ev[0] == "release":
                held.pop(ev[1], None)
        unreleased += [(i, l, k) for l, k in held.items()]
    for x in range(len(sections)):
        for y in range(x + 1, len(sections)):
            i, l1, a1, r1 = sections[x]
            j, l2, a2, r2 = sections[y]
            if i != j and l1 == l2:
                cons.append(z3.Or(T[i][r1] < T[j][a2], T[j][r2] < T[i][a1]))
    hazards = []
    labels = []
    # deadlock: a load that ended holding a lock makes every later acquire of that lock wait forever
    for i, l, a1 in unreleased:
        for j, p in enumerate(programs):
            if j == i:
                continue
            for m, ev in enumerate(p):
                if ev[0] == "acquire" and ev[1] == l:
                    hazards.append(T[i][a1] < T[j][m])
                    labels.append((f"load {j} waits forever for {l}: load {i} ended without releasing it", (i, a1), (j, m)))
    # file level: a foreign event on my handle between my seek and my read / a foreign close before my use
    for i, p in enumerate(programs):
        seeks = {}
        for k, ev in enumerate(p):
            if ev[0] == "seek":
                seeks[ev[1]] = k
            if ev[0] in ("read", "seek"):
                h = ev[1]
                for j, q in enumerate(programs):
                    if j == i:
                        continue
                    for m, ev2 in enumerate(q):
                        if ev2[0] in ("seek", "read", "close", "open") and ev2[1] == h:
                            if ev2[0] == "close":
                                hazards.append(T[j][m] < T[i][k])
                                labels.append((f"load {j} closes {h} before load {i} uses it", (j, m), (i, k)))
                            elif ev[0] == "read" and h in seeks:
                                hazards.append(z3.And(T[i][seeks[h]] < T[j][m], T[j][m] < T[i][k]))
                                labels.append((f"load {j} moves the position of {h} between the seek and the read of load {i}", (j, m), (i, k)))
    # shared attributes: conflicting accesses by two loads (at least one write) that can happen in either order
    for i, p in enumerate(programs):
        for k, ev in enumerate(p):
            if ev[0] != "set":
                continue
            for j, q in enumerate(programs):
                if j == i:
                    continue
                for m, ev2 in enumerate(q):
                    if ev2[0] in ("get", "set") and ev2[1] == ev[1]:
                        # the foreign access falls after this write and before the end of the writing load
                        hazards.append(z3.And(T[i][k] < T[j][m], T[j][m] < T[i][len(p) - 1]))
                        labels.append((f"load {j} {'reads' if ev2[0] == 'get' else 'writes'} {ev[1]} while load {i} (which wrote it) is still running", (j, m), (i, k)))
    return cons, hazards, labels, T


def lock_order_cycle(programs):
    """deadlock potential: a cycle in the 'acquired while holding' relation between locks"""
    edges = set()
    for p in programs:
        held = []
        for ev in p:
            if ev[0] == "acquire":
                for h in held:
                    edges.add((h, ev[1]))
                held.append(ev[1])
            elif ev[0] == "release" and ev[1] in held:
                held.remove(ev[1])
    nodes = {a for a, _ in edges} | {b for _, b in edges}
    order = {n: z3.Int("rank_" + n.replace(":", "_")) for n in nodes}
    s = z3.Solver()
    for a, b in edges:
        s.add(order[a] < order[b])
    return s.check() != z3.sat, sorted(edges)


def solve(programs, timeout_ms=60000):
    cons, hazards, labels, T = encode(programs)
    out = {"events": sum(len(p) for p in programs), "hazard_disjuncts": len(hazards)}
    s = z3.Solver()
    s.set("timeout", timeout_ms)
    s.add(*cons)
    r0 = s.check()
    out["schedules_exist"] = str(r0)
    if r0 != z3.sat:
        out["verdict"] = "inconclusive"
        out["reason"] = "no schedule satisfies program order and lock exclusion (encoding error?)"
        return out
    if not hazards:
        out["verdict"] = "unsat"
        return out
    s.add(z3.Or(*hazards))
    r = s.check()
    out["verdict"] = str(r)
    if r == z3.sat:
        m = s.model()
        order = sorted(((m.eval(T[i][k]).as_long(), i, k) for i in range(len(programs)) for k in range(len(programs[i]))))
        out["schedule"] = [(i, k) for _, i, k in order]
        out["hazards"] = [lab for h, (lab, _, _) in zip(hazards, labels) if z3.is_true(m.eval(h, model_completion=True))][:4]
    return out


# ------------------------------------------------------------------------------------------------ replay with real threads


class Controller:
    """lets the gated operations of the loads proceed in the order of a schedule (thread ids per gated event)"""

    def __init__(self, order):
        self.order = list(order)  # thread index per gated event
        self.pos = 0
        self.cv = threading.Condition()
        self.tid = {}
        self.done = set()
        self.free_run = False

    def register(self, index):
        self.tid[threading.get_ident()] = index

    def gate(self, ev):
        me = self.tid.get(threading.get_ident())
        if me is None:
            return
        with self.cv:
            while not self.free_run:
                # skip entries of finished threads
                while self.pos < len(self.order) and self.order[self.pos] in self.done:
                    self.pos += 1
                if self.pos >= len(self.order):
                    break
                if self.order[self.pos] == me:
                    self.pos += 1
                    self.cv.notify_all()
                    return
                if not self.cv.wait(timeout=5.0):
                    self.free_run = True  # schedule cannot be followed (programs changed shape): let everything run
                    self.cv.notify_all()
                    break

    def finish(self, index):
        with self.cv:
            self.done.add(index)
            self.cv.notify_all()


def replay(scenario, schedule, programs, expected=None):
    """run the loads concurrently, gated events in the order of `schedule`; -> dict(reproduced, detail)
    expected: the single-threaded outcomes (arrays, or ("raised", exception type name)) from record()"""
    loads = SCENARIOS[scenario]
    fs, variables, datas = setup({nm for nm, _ in loads}, shared=scenario.endswith("@shared-handle"))
    gated = ("acquire", "open", "seek", "read", "close")
    order = [i for i, k in schedule if programs[i][k][0] in gated]
    ctl = Controller(order)
    fs.ctl = ctl
    _CURRENT["ctl"] = ctl
    results = [None] * len(loads)
    errors = [None] * len(loads)

    def work(index, nm, sl):
        ctl.register(index)
        try:
            results[index] = np.asarray(variables[nm][sl].values)
        except Exception as e:  # noqa: BLE001
            errors[index] = f"{type(e).__name__}: {e}"
        finally:
            ctl.finish(index)

    threads = [threading.Thread(target=work, args=(i, nm, sl), daemon=True) for i, (nm, sl) in enumerate(loads)]
    try:
        for t in threads:
            t.start()
        for t in threads:
            t.join(timeout=12)
        hung = [i for i, t in enumerate(threads) if t.is_alive()]
    finally:
        fs.ctl = None
        _CURRENT["ctl"] = None
        with ctl.cv:
            ctl.free_run = True
            ctl.cv.notify_all()
    bad = []
    for i, (nm, sl) in enumerate(loads):
        if i in hung:
            bad.append(f"load {i} ({nm}[{_sel(sl)}]) did not finish (deadlock)")
        elif expected is not None and isinstance(expected[i], tuple):
            if not (errors[i] or "").startswith(expected[i][1] + ":"):
                bad.append(f"load {i} ({nm}[{_sel(sl)}]) raises {expected[i][1]} single-threaded, here: {errors[i] or 'returned values'}")
        elif errors[i]:
            bad.append(f"load {i} ({nm}[{_sel(sl)}]) raised {errors[i]}")
        elif not np.array_equal(results[i], datas[nm][sl]):
            bad.append(f"load {i} ({nm}[{_sel(sl)}]) returned {results[i].tolist()} instead of {datas[nm][sl].tolist()}")
    return {"reproduced": bool(bad), "detail": bad}
