"""Engine N - numeric proxies: run real repository functions on objects that build solver terms for the few
NumPy operations they use.  Here: `array.parse_data` (np.frombuffer + field access / view / arithmetic).

An unsupported operation raises Unsupported -> the obligation is inconclusive, never a verdict.
The op table is validated against real NumPy on concrete vectors (validate()).
"""
import numpy as np
import z3

F32 = z3.Float32()
RNE = z3.RNE()


class Unsupported(Exception):
    pass


def _fp_from_bytes(bs, byteorder):
    """bs: 4 BitVec(8) in memory order"""
    bs = list(bs)
    if byteorder == "<":
        bs = bs[::-1]
    return z3.fpBVToFP(z3.Concat(*bs), F32)


def _order(dt):
    bo = dt.byteorder
    if bo == "=":
        bo = "<"  # this platform (asserted in validate())
    if bo == "|":
        bo = ">"
    return bo


def decode(bs, dt):
    """memory bytes -> value term(s) under numpy dtype dt.  ('u', bv) | ('f', fp) | ('c', re, im)"""
    if dt.kind in "ui" and dt.itemsize in (1, 2, 4, 8) and dt.names is None:
        b = list(bs)
        if _order(dt) == "<":
            b = b[::-1]
        return (dt.kind, z3.Concat(*b) if len(b) > 1 else b[0])
    if dt.kind == "f" and dt.itemsize == 4:
        return ("f", _fp_from_bytes(bs, _order(dt)))
    if dt.kind == "c" and dt.itemsize == 8:
        return ("c", _fp_from_bytes(bs[:4], _order(dt)), _fp_from_bytes(bs[4:], _order(dt)))
    raise Unsupported(f"decode of dtype {dt}")


def _to_c(v):
    if v[0] == "c":
        return v
    if v[0] == "f":
        return ("c", v[1], z3.FPVal(0.0, F32))
    raise Unsupported(f"promotion of {v[0]} to complex")


def _scalar(x):
    if isinstance(x, complex):
        return ("c", z3.FPVal(x.real, F32), z3.FPVal(x.imag, F32))
    if isinstance(x, (int, float)):
        return ("f", z3.FPVal(float(x), F32))
    raise Unsupported(f"scalar {type(x)}")


def v_add(a, b):
    if a[0] == "f" and b[0] == "f":
        return ("f", z3.fpAdd(RNE, a[1], b[1]))
    a, b = _to_c(a), _to_c(b)
    return ("c", z3.fpAdd(RNE, a[1], b[1]), z3.fpAdd(RNE, a[2], b[2]))


def v_mul(a, b):
    if a[0] == "f" and b[0] == "f":
        return ("f", z3.fpMul(RNE, a[1], b[1]))
    a, b = _to_c(a), _to_c(b)
    # numpy complex64 multiply: (ar*br - ai*bi) + (ar*bi + ai*br)j, each op rounded to binary32
    re = z3.fpSub(RNE, z3.fpMul(RNE, a[1], b[1]), z3.fpMul(RNE, a[2], b[2]))
    im = z3.fpAdd(RNE, z3.fpMul(RNE, a[1], b[2]), z3.fpMul(RNE, a[2], b[1]))
    return ("c", re, im)


class PArr:
    """proxy ndarray (1-d).  raw: elements are memory byte lists + a real np.dtype;  val: computed values"""

    def __init__(self, elems, dtype, raw=True):
        self.elems, self.dtype, self.raw = elems, np.dtype(dtype) if dtype is not None else None, raw

    @property
    def shape(self):
        return (len(self.elems),)

    def values(self):
        if not self.raw:
            return self.elems
        if self.dtype.fields:
            raise Unsupported("values of a structured array")
        return [decode(bs, self.dtype) for bs in self.elems]

    def __getitem__(self, k):
        if isinstance(k, str):
            if not self.raw or not self.dtype.fields or k not in self.dtype.fields:
                raise Unsupported(f"field {k}")
            sub, off = self.dtype.fields[k][:2]
            return PArr([bs[off:off + sub.itemsize] for bs in self.elems], sub, raw=True)
        raise Unsupported(f"index {k!r}")

    def view(self, dt):
        dt = np.dtype(dt)
        if not self.raw:
            raise Unsupported("view of a computed array")
        if dt.itemsize != self.dtype.itemsize:
            raise Unsupported("view with a different item size")
        return PArr(self.elems, dt, raw=True)

    def astype(self, dt, copy=True):
        dt = np.dtype(dt)
        vals = self.values()
        out = []
        for v in vals:
            if dt.kind == "c" and dt.itemsize == 8:
                out.append(_to_c(v))
            elif dt.kind == v[0] and ((dt.kind == "f" and dt.itemsize == 4) or (dt.kind == "u" and dt.itemsize == 2)):
                out.append(v)
            else:
                raise Unsupported(f"astype {self.dtype}->{dt}")
        return PArr(out, dt, raw=False)

    def byteswap(self, inplace=False):
        if not self.raw or self.dtype.fields:
            raise Unsupported("byteswap")
        n = self.dtype.itemsize if self.dtype.kind != "c" else self.dtype.itemsize // 2
        return PArr([sum((bs[i:i + n][::-1] for i in range(0, len(bs), n)), []) for bs in self.elems], self.dtype, raw=True)

    def newbyteorder(self, *a):
        raise Unsupported("newbyteorder")

    def _bin(self, other, op, swap=False):
        a = self.values()
        if isinstance(other, PArr):
            b = other.values()
            if len(a) != len(b):
                raise Unsupported("broadcast")
        else:
            b = [_scalar(other)] * len(a)
        out = [op(y, x) if swap else op(x, y) for x, y in zip(a, b)]
        kind = "c" if any(v[0] == "c" for v in out) else out[0][0] if out else "f"
        return PArr(out, {"c": "complex64", "f": "float32"}.get(kind), raw=False)

    def __add__(self, o):
        return self._bin(o, v_add)

    def __radd__(self, o):
        return self._bin(o, v_add, swap=True)

    def __mul__(self, o):
        return self._bin(o, v_mul)

    def __rmul__(self, o):
        return self._bin(o, v_mul, swap=True)

    __array_priority__ = 1000


class NPShim:
    """numpy stand-in for array.parse_data: frombuffer yields a proxy, everything else is real numpy"""

    def __init__(self):
        self.calls = []

    def __getattr__(self, k):
        return getattr(np, k)

    def frombuffer(self, content, dtype=float, count=-1, offset=0):
        dt = np.dtype(dtype)
        if count != -1 or offset != 0:
            raise Unsupported("frombuffer count/offset")
        if len(content) % dt.itemsize:
            raise ValueError("buffer size must be a multiple of element size")
        self.calls.append(dt)
        n = len(content) // dt.itemsize
        return PArr([list(content[i * dt.itemsize:(i + 1) * dt.itemsize]) for i in range(n)], dt, raw=True)


def concrete(v, model_bytes):
    """evaluate a value term on concrete bytes -> tuple of bit patterns (NaN -> canonical 0x7fc00000); for validate()"""
    sol = z3.Solver()
    for b, x in model_bytes:
        sol.add(b == x)
    assert sol.check() == z3.sat
    m = sol.model()

    def bits(t):
        r = m.eval(t, model_completion=True)
        if t.sort() != F32:
            return r.as_long()
        if r.isNaN():
            return 0x7FC00000
        sign = int(bool(r.isNegative())) << 31
        if r.isInf():
            return sign | 0x7F800000
        if r.isZero():
            return sign
        if r.isSubnormal():
            return sign | r.significand_as_long()
        return (int(bool(r.sign())) << 31) | (r.exponent_as_long(True) << 23) | r.significand_as_long()

    return tuple(bits(t) for t in v[1:])
