"""Pinned tree oracles (spec/trees.json) for the metadata plumbing, the variants they cover and the generated harness modules.

A variant = one BASE document (parsed by the real parser from synthesised bytes) + the real transformer under test.  The pinned
table maps every location of the flattened output group to either the source leaf it must carry (`src`) or a constant
(names, dims, units, member order, derived texts).  Checks replace the source leaves by symbolic ints and ask the solver
whether any location can differ from its pinned source for some values.
"""
import json
import os

from vlib import tokens as T

ROOT = os.path.dirname(os.path.dirname(os.path.abspath(__file__)))
SPEC = os.path.join(ROOT, "spec", "trees.json")

HEADER_ATTR_FIELDS = ("maximum_data_range_of_pixel", "number_of_burst_data", "number_of_lines_per_burst", "number_of_overlap_lines_with_adjacent_bursts")


def _leader_keep(p, v):
    if p[0] == "file_descriptor" or p[0] in ("facility_related_data_1", "facility_related_data_2", "facility_related_data_3", "facility_related_data_4"):
        return False
    if p[0] == "attitude" and "time" in p:
        return False  # numpy timedelta conversion: decided in C17
    if "datetime_of_first_point" in p:
        return False  # date text + seconds: decided in C17
    return True


def _image_keep(p, v):
    if p[0] == "header":
        # counts drive parsing; the nullable header attributes have their own obligation (present iff non-blank)
        return p[-1] in ("number_of_lines_per_dataset", "number_of_data_groups_per_line")
    if "sensor_acquisition_date" in p or "sensor_acquisition_date_microseconds" in p:
        return False
    return True


def _unique_strings(doc, skip=()):
    """blank text leaves get distinguishable concrete contents (so that a swap in the plumbing is visible)"""
    k = [0]

    def walk(x, p):
        if isinstance(x, dict):
            return {key: walk(v, p + (key,)) for key, v in x.items()}
        if isinstance(x, list):
            return [walk(v, p + (i,)) for i, v in enumerate(x)]
        if isinstance(x, tuple) and len(x) == 2 and isinstance(x[1], dict):
            return (walk(x[0], p + ("@0",)), x[1])
        if isinstance(x, str) and x == "" and not any(s in p for s in skip):
            k[0] += 1
            return f"txt{k[0]}"
        return x

    return walk(doc, ())


def untraced(f):
    """run f on its (concrete) arguments outside CrossHair's tracing: its datetime model mis-handles timedelta(seconds=float) and
    strptime; the two text->ISO conversions wrapped this way are decided separately (C17) and only see concrete texts here"""
    def g(*a, **k):
        try:
            from crosshair.tracers import NoTracing
        except ImportError:
            return f(*a, **k)
        with NoTracing():
            return f(*a, **k)
    return g


def variants():
    from ceos_alos2.sar_image import metadata as IM
    from ceos_alos2.sar_leader import dataset_summary as DS
    from ceos_alos2.sar_leader import metadata as LM
    from ceos_alos2.sar_leader import platform_position as PP
    from ceos_alos2.volume_directory import metadata as VM

    def led_transform(doc):
        saved = (PP.transform_composite_datetime, DS.normalize_datetime)
        PP.transform_composite_datetime, DS.normalize_datetime = untraced(saved[0]), untraced(saved[1])
        try:
            return LM.transform_metadata(doc)
        finally:
            PP.transform_composite_datetime, DS.normalize_datetime = saved

    def vol_transform(doc):
        saved = VM.normalize_datetime
        VM.normalize_datetime = untraced(saved)
        try:
            return VM.transform_record(doc)
        finally:
            VM.normalize_datetime = saved

    def led(**kw):
        return lambda: _unique_strings(T.base_leader(**kw))

    def img(level, n, header=None):
        def doc():
            h, lines = T.base_image(level, n, header=header)
            return _unique_strings({"header": h, "lines": lines}, skip=("interleaving_id",))
        return doc

    def img_transform(d):
        from ceos_alos2.hierarchy import Group

        group, array_metadata = IM.transform_metadata(d["header"], d["lines"])
        return Group("/", None, {"image": group}, attrs=dict(array_metadata))

    out = {}
    for name, kw in (("utm", dict(designator="UTM-PROJECTION")), ("ups", dict(designator="UPS-PROJECTION")), ("lcc", dict(designator="LCC-PROJECTION")),
                     ("mer", dict(designator="MER-PROJECTION")), ("nomp", dict(with_mp=False)), ("small", dict(n_att=1, n_ch=1)), ("big", dict(n_att=3, n_ch=3))):
        out[f"leader.{name}"] = {"doc": led(**kw), "transform": led_transform, "keep": _leader_keep, "family": "leader"}
    out["image.15.n2"] = {"doc": img("1.5", 2), "transform": img_transform, "keep": _image_keep, "family": "image"}
    out["image.15.n3"] = {"doc": img("1.5", 3), "transform": img_transform, "keep": _image_keep, "family": "image"}
    out["image.11.n2"] = {"doc": img("1.1", 2), "transform": img_transform, "keep": _image_keep, "family": "image"}
    out["image.11.n1"] = {"doc": img("1.1", 1), "transform": img_transform, "keep": _image_keep, "family": "image"}
    for nfp in (0, 3):
        out[f"volume.fp{nfp}"] = {"doc": (lambda nfp=nfp: _unique_strings(T.base_volume(nfp))), "transform": vol_transform,
                                   "keep": lambda p, v: True, "family": "volume"}
    return out


def generate():
    out = {}
    for name, v in variants().items():
        doc = v["doc"]()
        paths = T.leaves(doc, v["keep"])
        table, unused = T.trace(v["transform"], doc, paths)
        out[name] = {"table": table, "tokens": [T.path_key(p) for p in paths], "unused": [T.path_key(p) for p in unused]}
    return out


def load():
    return json.load(open(SPEC))


def decode_const(x):
    import datetime

    if isinstance(x, dict):
        if "__tuple__" in x:
            return tuple(decode_const(e) for e in x["__tuple__"])
        if "__float__" in x:
            return float(x["__float__"])
        if "__complex__" in x:
            return complex(x["__complex__"])
        if "__datetime__" in x:
            return datetime.datetime.fromisoformat(x["__datetime__"])
        if "__bytes__" in x:
            return bytes.fromhex(x["__bytes__"])
        if "__dict__" in x:
            return {decode_const(k): decode_const(v) for k, v in x["__dict__"]}
    if isinstance(x, list):
        return [decode_const(e) for e in x]
    return x


def same_const(a, b):
    if isinstance(a, float) and isinstance(b, float):
        return (a != a and b != b) or (a == b)
    return type(a) is type(b) and a == b


_DOCS = {}


def prepared(variant_name):
    """BASE document and token paths of a variant, built once (by the real parsers) outside of any symbolic tracing"""
    if variant_name not in _DOCS:
        v = variants()[variant_name]
        doc = v["doc"]()
        _DOCS[variant_name] = (v, doc, T.leaves(doc, v["keep"]))
    return _DOCS[variant_name]


def _order_free(key):
    return key.endswith("|members") or key.endswith("|attrnames") or "|varattrnames|" in key or key.endswith("|#keys")


class _Null:
    def __enter__(self):
        return self

    def __exit__(self, *a):
        return False


def no_tracing():
    """CrossHair's NoTracing when running under CrossHair (plain containers, native speed), a no-op otherwise.  Inside, symbolic
    values may be carried around and tested for identity but never operated on."""
    try:
        from crosshair.tracers import NoTracing, is_tracing
    except ImportError:
        return _Null()
    return NoTracing() if is_tracing() else _Null()


def _is_symbolic(x):
    return type(x).__module__.startswith("crosshair")


_COMPILED = {}


def compiled(variant_name, spec):
    """pinned table of a variant in a form that needs no work during the symbolic run (built once, outside tracing)"""
    if variant_name not in _COMPILED:
        v, doc, paths = prepared(variant_name)
        keys = [T.path_key(p) for p in paths]
        index = {k: i for i, k in enumerate(keys)}
        entries = {}
        coords = {}
        for k, e in spec[variant_name]["table"].items():
            if "src" in e:
                entries[k] = ("src", index.get(e["src"]), e)
            elif _order_free(k):
                entries[k] = ("free", sorted(map(str, decode_const(e["const"]))), e)
            elif "|attr|coordinates|" in k and not k.endswith("#len"):
                entries[k] = ("coord", k.rsplit("|", 1)[0], e)
                coords.setdefault(k.rsplit("|", 1)[0], []).append(e["const"])
            else:
                entries[k] = ("const", decode_const(e["const"]), e)
        _COMPILED[variant_name] = (keys, entries, coords)
    return _COMPILED[variant_name]


def check(variant_name, values, spec=None, ordered=True):
    """run the real transformer on the variant's BASE with `values` (ints, possibly symbolic) at the pinned token paths and
    compare every location with the pinned table.  -> (ok, first mismatches)
    ordered=False (symbolic runs): member / attribute ORDER is not asserted - CrossHair's dict model does not reproduce CPython's
    insertion order through every toolz operation; order does not depend on values and is asserted by the concrete twin run."""
    spec = spec or load()
    v, doc, paths = prepared(variant_name)
    keys, entries, coords_want = compiled(variant_name, spec)
    if keys != spec[variant_name]["tokens"]:
        pinned = spec[variant_name]["tokens"]
        return False, [{"what": "the set of numeric source leaves differs from the pinned one", "missing": [k for k in pinned if k not in keys][:5],
                        "extra": [k for k in keys if k not in pinned][:5]}]
    with no_tracing():
        tokdoc = T.with_tokens(doc, paths, values)  # container surgery only
    flat = T.flatten(v["transform"](tokdoc))
    ok = True
    bad = []
    pairs = []
    with no_tracing():
        seen = set()
        coords_got = {}
        for loc, val in flat:
            k = T.loc_key(loc)
            seen.add(k)
            ent = entries.get(k)
            if ent is None:
                ok = False
                bad.append({"unexpected location": k})
                continue
            kind, payload, e = ent
            if kind == "src":
                if val is values[payload]:
                    continue  # passed through by reference
                if isinstance(val, (bool, str, list, tuple, dict)) and not _is_symbolic(val):
                    ok = False
                    bad.append({"location": k, "expected": e, "got": val})
                else:
                    pairs.append((k, e, val, values[payload]))
                continue
            if _is_symbolic(val):
                ok = False
                bad.append({"location": k, "expected": e, "got": "<a source value where a constant is pinned>"})
                continue
            if kind == "free" and not ordered:
                same = sorted(map(str, val)) == payload
            elif kind == "coord" and not ordered:
                coords_got.setdefault(payload, []).append(val)
                continue
            else:
                same = same_const(val, decode_const(e["const"]))
            if not same:
                ok = False
                bad.append({"location": k, "expected": e, "got": val})
        for k in entries:
            if k not in seen:
                ok = False
                bad.append({"missing location": k})
        if not ordered:
            for k, want in coords_want.items():
                if sorted(map(str, coords_got.get(k, []))) != sorted(map(str, want)):
                    ok = False
                    bad.append({"location": k, "expected (any order)": want, "got": coords_got.get(k)})
    # the only solver-relevant part: values that are not the very same object as their pinned source
    pending = []
    for k, e, val, tok in pairs:
        same = (val == tok)
        if same is True:
            continue
        if same is False:
            ok = False
            bad.append({"location": k, "expected": e, "got": val})
        else:
            pending.append(same)
    while len(pending) > 1:
        pending = [pending[i] & pending[i + 1] if i + 1 < len(pending) else pending[i] for i in range(0, len(pending), 2)]
    if pending and ok:
        ok = pending[0]
    return ok, bad[:6]


def used_tokens(spec_entry):
    """pinned source leaves that reach the output by identity; the others (ignored fields, flags turned into bools, counts)
    keep their concrete BASE value in the symbolic run - converting them forks on every value test"""
    unused = set(spec_entry["unused"])
    return [k for k in spec_entry["tokens"] if k not in unused]


def fill(variant_name, used_values, spec_entry):
    """values for all token paths: `used_values` (possibly symbolic) for the used ones, BASE values for the rest"""
    v, doc, paths = prepared(variant_name)
    with no_tracing():
        it = iter(used_values)
        unused = set(spec_entry["unused"])
        return [T.get(doc, p) if T.path_key(p) in unused else next(it) for p in paths]


def write_harness(variant_name, n_tokens, path):
    """n_tokens = number of USED tokens of the variant"""
    args = ", ".join(f"x{i}: int" for i in range(n_tokens))
    lst = ", ".join(f"x{i}" for i in range(n_tokens))
    src = f'''"""generated by vlib.plumbspec.write_harness for variant {variant_name!r} (regenerated on every run)"""
import sys

sys.setrecursionlimit(20000)  # CrossHair's interception adds frames to the recursive transformers
from vlib import plumbspec as PS  # noqa: E402

SPEC = PS.load()
PS.prepared({variant_name!r})  # parse the synthesised BASE document now, at import time
PS.compiled({variant_name!r}, SPEC)


def plumb_ok({args}) -> bool:
    """
    post: _
    """
    ok, bad = PS.check({variant_name!r}, PS.fill({variant_name!r}, [{lst}], SPEC[{variant_name!r}]), SPEC, ordered=False)
    return ok


def explain_plumb_ok({', '.join(f'x{i}' for i in range(n_tokens))}):
    return PS.check({variant_name!r}, PS.fill({variant_name!r}, [{lst}], SPEC[{variant_name!r}]), SPEC)[1]
'''
    os.makedirs(os.path.dirname(path), exist_ok=True)
    with open(path, "w") as f:
        f.write(src)
