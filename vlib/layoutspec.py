"""Pinned record layouts (spec/layout.json) and their comparison with the live construct objects.

For every record struct the live layout is obtained by the symbolic interpreter (vlib.layout) with the structure parameters
(record lengths, point/channel/pointer counts, generic array indices) as z3 Int variables.  Offsets and widths are linear terms
in those parameters; the pinned table stores them as {const, coeffs}.  `compare` asks the solver, for every leaf, whether
offset / width can differ from the pinned term for some admissible parameter values (unbounded), and compares the kind chain
(adapter classes, Factor value, Metadata attributes, Enum table, binary format) literally.
"""
import json
import os

import z3

from vlib import layout

ROOT = os.path.dirname(os.path.dirname(os.path.abspath(__file__)))
SPEC = os.path.join(ROOT, "spec", "layout.json")


def registry():
    from ceos_alos2.sar_image.file_descriptor import file_descriptor_record as img_fd
    from ceos_alos2.sar_image.processed_data import processed_data_record
    from ceos_alos2.sar_image.signal_data import signal_data_record
    from ceos_alos2.sar_leader.structure import sar_leader_record
    from ceos_alos2.sar_trailer.file_descriptor import file_descriptor_record as trl_fd
    from ceos_alos2.volume_directory.structure import volume_directory_record

    L = z3.Int("L")
    c, natt, Latt, nch = z3.Ints("c natt Latt nch")
    Lf = [z3.Int(f"Lf{i}") for i in range(1, 5)]
    led_values = {("file_descriptor", "map_projection", "number_of_records"): c,
                  ("attitude", "preamble", "record_length"): Latt, ("attitude", "number_of_points"): natt,
                  ("data_quality_summary", "number_of_channels"): nch}
    for i in range(1, 5):
        led_values[(f"facility_related_data_{i}", "preamble", "record_length")] = Lf[i - 1]
    nfp, nlr = z3.Ints("nfp nlr")
    return {
        "image_file_descriptor": (img_fd, {}, []),
        "signal_data_record": (signal_data_record, {("preamble", "record_length"): L}, [L >= 544]),
        "processed_data_record": (processed_data_record, {("preamble", "record_length"): L}, [L >= 192]),
        "sar_leader": (sar_leader_record, led_values, [c >= 0, c <= 1, nch >= 0, nch <= 16, natt >= 0, Latt >= 16 + 120 * natt] + [x >= 66 for x in Lf]),
        "volume_directory": (volume_directory_record, {("volume_descriptor", "number_of_file_pointer_records"): nfp}, [nfp >= 0]),
        "trailer_file_descriptor": (trl_fd, {("number_of_low_resolution_images",): nlr}, [nlr >= 0, nlr <= 7]),
    }


def live(name):
    struct, values, dom = registry()[name]
    it, end, val = layout.interpret(struct, values=values)
    return it, end, dom


def _vars_of(terms):
    seen = {}

    def walk(t):
        if z3.is_const(t) and t.decl().kind() == z3.Z3_OP_UNINTERPRETED:
            seen[str(t)] = t
        for ch in t.children():
            walk(ch)

    for t in terms:
        if z3.is_expr(t):
            walk(t)
    return seen


def linear(term):
    """-> {"const": int, "coeffs": {var: int}} for a linear integer term (checked by the solver)"""
    if isinstance(term, int):
        return {"const": term, "coeffs": {}}
    vs = _vars_of([term])
    zero = [(v, z3.IntVal(0)) for v in vs.values()]
    const = z3.simplify(z3.substitute(term, *zero)).as_long()
    coeffs = {}
    for name, v in vs.items():
        sub = [(w, z3.IntVal(1 if w is v else 0)) for w in vs.values()]
        k = z3.simplify(z3.substitute(term, *sub)).as_long() - const
        if k:
            coeffs[name] = k
    rebuilt = build(const, coeffs)
    s = z3.Solver()
    s.add(term != rebuilt)
    if s.check() != z3.unsat:
        raise ValueError(f"term is not linear: {term}")
    return {"const": const, "coeffs": coeffs}


def build(const, coeffs):
    t = z3.IntVal(const)
    for name, k in coeffs.items():
        t = t + k * z3.Int(name)
    return t


def snapshot(name):
    it, end, dom = live(name)
    out = []
    for lf in it.leaves:
        e = {"path": [str(p) for p in lf.path], "off": linear(lf.off), "width": linear(lf.width), "kind": layout.kind_json(lf.kind)}
        if lf.idx:
            e["idx"] = [[str(i), linear(cnt), sz] for i, cnt, sz in lf.idx]
        out.append(e)
    struct, values, dom = registry()[name]
    params = {".".join(map(str, k)): str(v) for k, v in values.items()}
    return {"leaves": out, "end": linear(end), "params": params}


def load():
    return json.load(open(SPEC))


def compare(name, session, spec=None):
    """adds queries to `session` (vlib.smt.Session); returns list of literal (non-solver) mismatches"""
    spec = (spec or load())[name]
    it, end, dom = live(name)
    literal = []
    live_paths = [[str(p) for p in lf.path] for lf in it.leaves]
    spec_paths = [e["path"] for e in spec["leaves"]]
    if live_paths != spec_paths:
        missing = [".".join(p) for p in spec_paths if p not in live_paths]
        extra = [".".join(p) for p in live_paths if p not in spec_paths]
        order = [".".join(a) for a, b in zip(live_paths, spec_paths) if a != b][:6]
        literal.append({"what": "field list differs", "missing": missing[:8], "extra": extra[:8], "first_out_of_order": order})
    # fields are matched by (path, occurrence): a struct may use the same name twice (e.g. two `blanks`)
    by_path, count = {}, {}
    for e in spec["leaves"]:
        k = tuple(e["path"])
        by_path[(k, count.get(k, 0))] = e
        count[k] = count.get(k, 0) + 1
    occ = {}
    assumptions = list(it.constraints) + list(dom)
    # generic array indices range over their arrays
    for lf in it.leaves:
        for idx, count, size in lf.idx:
            assumptions += [idx >= 0, idx < count]
    session.feasible(f"{name}:admissible", assumptions, show=list(_vars_of(assumptions).values())[:6])
    batched = []
    for lf in it.leaves:
        k = tuple(str(p) for p in lf.path)
        e = by_path.get((k, occ.get(k, 0)))
        occ[k] = occ.get(k, 0) + 1
        if e is None:
            continue
        label = f"{name}:{lf.name}"
        for what, live_t, pinned in (("offset", lf.off, e["off"]), ("width", lf.width, e["width"])):
            want = build(pinned["const"], pinned["coeffs"])
            diff = z3.simplify((live_t if z3.is_expr(live_t) else z3.IntVal(live_t)) - want)
            if z3.is_int_value(diff) and diff.as_long() == 0:
                session.rewritten += 1  # identical linear normal forms; also handed to the solver in one batched query below
                batched.append((live_t if z3.is_expr(live_t) else z3.IntVal(live_t)) == want)
                continue
            vs = list(_vars_of([diff]).values())
            session.holds(f"{label}:{what}", assumptions, diff == 0, show=vs)
        kind = layout.kind_json(lf.kind)
        if kind != e["kind"]:
            literal.append({"what": "kind chain differs", "field": lf.name, "live": kind, "pinned": e["kind"]})
    if batched:
        session.holds(f"{name}:all {len(batched)} offset/width equalities with identical normal forms", assumptions, z3.And(*batched), show=[])
    want_end = build(spec["end"]["const"], spec["end"]["coeffs"])
    session.holds(f"{name}:end", assumptions, (end if z3.is_expr(end) else z3.IntVal(end)) == want_end, show=list(_vars_of(assumptions).values())[:6])
    return literal


def field_offset(name, path, spec=None):
    """pinned 0-based offset {const, coeffs} of a field (for anchors)"""
    spec = (spec or load())[name]
    for e in spec["leaves"]:
        if e["path"] == list(path):
            return e["off"]
    raise KeyError(path)
