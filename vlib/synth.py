"""Product synthesiser: writes byte-exact CEOS files by walking the live construct Structs of the repository
(text right-justified, binary big-endian).  Used only for (a) replaying solver counterexamples through the
public API and (b) validating the layout interpreter and the contract stubs - never as the deciding step.
"""
import os
import struct

import construct as c
import numpy as np

from ceos_alos2 import datatypes as D
from ceos_alos2.sar_image import enums as E


def build(con, values, ctx, path=(), rec=None, base=0):
    """-> (bytes, python value).  values: nested dict of overrides.  rec: list collecting (path, offset, width)"""
    if isinstance(con, c.Renamed):
        return build(con.subcon, values, ctx, path, rec, base)
    v = values
    if isinstance(con, c.Struct):
        out = b""
        myctx = c.Container(_=ctx)
        for sc in con.subcons:
            name = sc.name
            sub = v.get(name) if isinstance(v, dict) else None
            b, val = build(sc, sub, myctx, path + ((name,) if name else ()), rec, base + len(out))
            if name:
                myctx[name] = val
            out += b
        return out, myctx
    if isinstance(con, c.Array):
        n = con.count(ctx) if callable(con.count) else con.count
        out = b""
        vals = []
        for i in range(n):
            sub = v[i] if isinstance(v, list) and i < len(v) else None
            b, val = build(con.subcon, sub, ctx, path + (i,), rec, base + len(out))
            out += b
            vals.append(val)
        return out, vals
    if isinstance(con, c.FormatField):
        val = 0 if v is None else v
        if rec is not None:
            rec.append((path, base, con.length))
        return struct.pack(con.fmtstr, val), val
    if isinstance(con, (D.AsciiInteger, D.AsciiFloat, D.PaddedString)):
        fs = con.subcon.subcon
        n = fs.length(ctx) if callable(fs.length) else fs.length
        if n < 0:
            raise ValueError(f"negative length at {path}: {n}")
        if rec is not None:
            rec.append((path, base, n))
        if isinstance(v, bytes):  # raw field content
            assert len(v) == n, (path, v, n)
            return v, None
        if isinstance(con, D.AsciiInteger):
            txt = "" if v == "" else str(0 if v is None else v)
            if len(txt) > n:
                raise ValueError(f"{path}: {txt!r} does not fit {n}")
            return txt.rjust(n).encode(), (0 if v in (None, "") else v)
        if isinstance(con, D.AsciiFloat):
            if v == "":
                return b" " * n, float("nan")
            val = 0.0 if v is None else v
            txt = v if isinstance(v, str) else (f"{val:{n}.7E}" if n >= 14 else f"{val:{n}.3f}")
            assert len(txt) <= n, (path, txt, n)
            return txt.rjust(n).encode(), float(txt)
        txt = "" if v is None else (v if isinstance(v, str) else str(v))  # a code given as a number for a field declared as text
        assert len(txt) <= n, (path, txt, n)
        return txt.ljust(n).encode(), txt
    if type(con).__name__ == "StringEncoded":
        fs = con.subcon
        while type(fs).__name__ != "FixedSized":
            fs = fs.subcon
        n = fs.length(ctx) if callable(fs.length) else fs.length
        if rec is not None:
            rec.append((path, base, n))
        txt = "" if v is None else str(v)
        return txt.ljust(n)[:n].encode(), txt
    if isinstance(con, D.AsciiComplex) and not isinstance(con.subcon, c.Struct):
        # a complex field declared over one text field: write the two halves as text
        b, _ = build(con.subcon, None, ctx, path, rec, base)
        half = len(b) // 2
        re_, im = (v.real, v.imag) if v is not None else (0.0, 0.0)
        return (f"{re_:{half}.7E}"[:half].rjust(half) + f"{im:{half}.7E}"[:half].rjust(half)).encode(), complex(re_, im)
    if isinstance(con, D.AsciiComplex):
        st = con.subcon
        re_, im = (v.real, v.imag) if v is not None else (0.0, 0.0)
        half = st.subcons[0]
        b1, _ = build(half, re_, ctx, path + ("real",), rec, base)
        b2, _ = build(st.subcons[1], im, ctx, path + ("imaginary",), rec, base + len(b1))
        return b1 + b2, complex(re_, im)
    if isinstance(con, D.DatetimeYdms):
        return build(con.subcon, v or {"year": 2020, "day_of_year": 1, "milliseconds": 0}, ctx, path, rec, base)
    if isinstance(con, (D.Factor, D.Metadata, D.DatetimeYdus, D.StripNullBytes, E.Flag)):
        return build(con.subcon, v, ctx, path, rec, base)
    if isinstance(con, c.Enum):
        return build(con.subcon, v, ctx, path, rec, base)
    if isinstance(con, c.Bytes):
        n = con.length(ctx) if callable(con.length) else con.length
        if rec is not None:
            rec.append((path, base, n))
        return (v or b"").ljust(n, b"\0"), v
    if type(con).__name__ in ("Tell", "Computed", "Seek"):
        return b"", None
    raise TypeError(f"{type(con)} at {path}")


def preamble(seq, t1, t, t2, t3, length):
    return {"record_sequence_number": seq, "first_record_subtype": t1, "record_type": t,
            "second_record_subtype": t2, "third_record_subtype": t3, "record_length": length}


# ---------------------------------------------------------------------------------------------- files

HL = {"1.1": 544, "1.5": 192}


def image_file(level, data, header=None, line=None, raw_lines=None):
    """data: (n, p) complex64 / uint16 array, or None with raw_lines = list of bytes per line"""
    from ceos_alos2.sar_image import file_descriptor as imgfd
    from ceos_alos2.sar_image import processed_data, signal_data

    hl = HL[level]
    bps = 8 if level == "1.1" else 2
    if data is not None:
        n, p = data.shape
    else:
        n, p = len(raw_lines), len(raw_lines[0]) // bps
    rs = hl + p * bps
    fd = {
        "preamble": preamble(1, 50, 192, 18, 18, 720), "number_of_sar_data_records": n, "sar_data_record_length": rs,
        "sar_related_data_in_the_record": {"number_of_lines_per_dataset": n, "number_of_data_groups_per_line": p, "interleaving_id": "BSQ"},
        "prefix_suffix_data_locators": {"sar_data_format_type_code": "C*8" if level == "1.1" else "IU2",
                                        "maximum_data_range_of_pixel": "", "number_of_burst_data": "", "number_of_lines_per_burst": ""},
        "scansar_burst_data_information": {"number_of_overlap_lines_with_adjacent_bursts": ""},
    }
    for k, v in (header or {}).items():
        if isinstance(v, dict):
            fd.setdefault(k, {}).update(v)
        else:
            fd[k] = v
    out, _ = build(imgfd.file_descriptor_record, fd, {})
    assert len(out) == 720
    rec = signal_data.signal_data_record if level == "1.1" else processed_data.processed_data_record
    for i in range(n):
        v = {"preamble": preamble(i + 2, 50, 10 if level == "1.1" else 11, 18, 20, rs), "sar_image_data_line_number": i + 1,
             "sensor_acquisition_date": {"year": 2020, "day_of_year": 60, "milliseconds": 1000 * i},
             "sar_channel_id": 1, "sensor_acquisition_date_microseconds": 1000000 * i}
        v.update((line(i) if callable(line) else line) or {})
        b, _ = build(rec, v, {})
        assert len(b) == hl, (len(b), hl)
        if raw_lines is not None:
            payload = raw_lines[i]
        elif level == "1.1":
            ln = np.empty(p, dtype=[("real", ">f4"), ("imag", ">f4")])
            ln["real"] = data[i].real
            ln["imag"] = data[i].imag
            payload = ln.tobytes()
        else:
            payload = data[i].astype(">u2").tobytes()
        out += b + payload
    return out


def leader(n_att=3, n_ch=2, with_mp=True, fac_len=(100, 120, 140, 160), att_len=16384, overrides=None, designator="UTM-PROJECTION"):
    from ceos_alos2.sar_leader import attitude, data_quality_summary, dataset_summary, facility_related_data
    from ceos_alos2.sar_leader import file_descriptor as ledfd
    from ceos_alos2.sar_leader import map_projection, platform_position, radiometric_data

    ov = overrides or {}

    def merged(base, key):
        out = dict(base)
        for k, v in ov.get(key, {}).items():
            if isinstance(v, dict) and isinstance(out.get(k), dict):
                out[k] = {**out[k], **v}
            else:
                out[k] = v
        return out

    fd = {"preamble": preamble(1, 11, 192, 18, 18, 720), "map_projection": {"number_of_records": 1 if with_mp else 0, "record_length": 1620},
          "dataset_summary": {"number_of_records": 1, "record_length": 4096}}
    b, _ = build(ledfd.file_descriptor_record, merged(fd, "file_descriptor"), {})
    assert len(b) == 720
    out = b
    ds = {"preamble": preamble(2, 18, 10, 18, 20, 4096), "scene_center_time": "20200229123456789", "motion_compensation_indicator": 0,
          "base_band_conversion_flag": "YES", "range_compression_flag": "NO", "echo_tracker_status": "ON",
          "weighting_function_in_azimuth": "1", "weighting_function_in_range": "1", "clutter_lock_applied_flag": "YES",
          "auto_focusing_applied_flag": "YES", "geodetic_latitude": 12.5}
    b, _ = build(dataset_summary.dataset_summary_record, merged(ds, "dataset_summary"), {})
    assert len(b) == 4096, len(b)
    out += b
    if with_mp:
        mp = {"preamble": preamble(3, 18, 20, 18, 20, 1620), "map_projection_designator": designator}
        b, _ = build(map_projection.map_projection_record, merged(mp, "map_projection"), {})
        assert len(b) == 1620
        out += b
    pp = {"preamble": preamble(4, 18, 30, 18, 20, 4680), "orbital_elements_designator": "2",
          "datetime_of_first_point": {"date": "2020   2  29", "day_of_year": 60, "seconds_of_day": 3600.5}}
    b, _ = build(platform_position.platform_position_record, merged(pp, "platform_position"), {})
    assert len(b) == 4680
    out += b
    pts = [{"time": {"day_of_year": 60, "millisecond_of_day": 1000 * i}} for i in range(n_att)]
    at = {"preamble": preamble(5, 18, 40, 18, 20, att_len), "number_of_points": n_att, "data_points": pts}
    b, _ = build(attitude.attitude_record, merged(at, "attitude"), {})
    assert len(b) == att_len, len(b)
    out += b
    rd = {"preamble": preamble(6, 18, 50, 18, 20, 9860), "calibration_factor": -83.0}
    b, _ = build(radiometric_data.radiometric_data_record, merged(rd, "radiometric_data"), {})
    assert len(b) == 9860
    out += b
    dq = {"preamble": preamble(7, 18, 60, 18, 20, 1620), "number_of_channels": n_ch}
    b, _ = build(data_quality_summary.data_quality_summary_record, merged(dq, "data_quality_summary"), {})
    assert len(b) == 1620, len(b)
    out += b
    for i, L in enumerate(fac_len):
        fr = {"preamble": preamble(8 + i, 18, 200, 18, 70, L), "record_sequence_number": i + 1}
        b, _ = build(facility_related_data.facility_related_data_record, merged(fr, f"facility_related_data_{i + 1}"), {})
        assert len(b) == L
        out += b
    f5 = {"preamble": preamble(12, 18, 200, 18, 70, 5000), "record_sequence_number": 5, "calibration_mode_data_location_flag": 0}
    b, _ = build(facility_related_data.facility_related_data_5_record, merged(f5, "facility_related_data_5"), {})
    assert len(b) == 5000, len(b)
    out += b
    return out


def volume(n_fp=4, overrides=None):
    from ceos_alos2.volume_directory import structure as vd

    ov = overrides or {}
    v = {"volume_descriptor": {"preamble": preamble(1, 192, 192, 18, 18, 360), "logical_volume_creation_datetime": "2020022912345678",
                               "number_of_file_pointer_records": n_fp, "physical_volume_id": "PHYS", "logical_volume_id": "LOGI", **ov.get("volume_descriptor", {})},
         "text_record": {"preamble": preamble(2 + n_fp, 18, 63, 18, 18, 360), "product_id": "PRODUCT:WBDR1.1__D", "scene_id": "ORBIT:ALOS2", **ov.get("text_record", {})}}
    b, _ = build(vd.volume_directory_record, v, {})
    assert len(b) == 360 * (2 + n_fp)
    return b


SCENE = "ALOS2290760600-191011"
PID = {"1.1": "WBDR1.1__D", "1.5": "WBDR1.5GUD"}


def summary_lines(files, p, n, pid, scene=SCENE):
    return ['Odi_SceneId="SARD000000276461-00043-005-000"', f'Scs_SceneID="{scene}"', 'Scs_SceneShift="0"', f'Pds_ProductID="{pid}"',
            'Pds_ResamplingMethod="NN"', 'Img_SceneCenterDateTime="20191011 14:43:15.525"', 'Img_OffNadirAngle="21.3"',
            f'Pdi_CntOfL15ProductFileName="{len(files)}"'] + [f'Pdi_L15ProductFileName{i + 1:02d}="{f}"' for i, f in enumerate(files)] + [
            f'Pdi_NoOfPixels_1="{p}"', f'Pdi_NoOfLines_1="{n}"', 'Pdi_ProductFormat="CEOS"', 'Pdi_BitPixel="16"', 'Pdi_ProductDataSize="1.5"',
            'Ach_PRF_Check=""', 'Rad_PracticeResultCode="GOOD"', 'Lbi_Sensor="SAR"', 'Lbi_ObservationDate="20191011"', 'Lbi_ProcessFacility="SCMO"']


def product(write, level="1.5", n=5, p=7, pols=("HH", "HV"), scans=(None,), rng=None, datas=None, image_kw=None, leader_kw=None,
            volume_kw=None, pid=None, summary_edit=None, scene=None):
    """write(name, bytes) stores one file; returns {image file name: sample matrix}"""
    rng = rng or np.random.default_rng(0)
    pid = pid or PID[level]
    SCENE = scene or globals()["SCENE"]
    files = [f"VOL-{SCENE}-{pid}", f"LED-{SCENE}-{pid}"]
    out = {}
    for pol in pols:
        for s in scans:
            name = f"IMG-{pol}-{SCENE}-{pid}" + (f"-{s}" if s else "")
            if datas and name in datas:
                d = datas[name]
            elif level == "1.1":
                d = (rng.normal(size=(n, p)) + 1j * rng.normal(size=(n, p))).astype("complex64")
            else:
                d = rng.integers(0, 65536, size=(n, p)).astype("uint16")
            out[name] = d
            write(name, image_file(level, d, **(image_kw or {})))
            files.append(name)
    files.append(f"TRL-{SCENE}-{pid}")
    write(files[0], volume(**(volume_kw or {})))
    write(files[1], leader(**(leader_kw or {})))
    write(files[-1], b"")
    lines = summary_lines(files, p, n, pid, scene=SCENE)
    if summary_edit:
        lines = summary_edit(lines)
    write("summary.txt", ("\n".join(lines) + "\n").encode())
    return out


def dir_writer(root):
    os.makedirs(root, exist_ok=True)

    def write(name, data):
        with open(os.path.join(root, name), "wb") as f:
            f.write(data)

    return write
