"""Core of the checking framework: obligations, parallel runner, verdict policy, evidence.

An *obligation* is one solver-decided statement about real repository code.  Two kinds:

* ``crosshair``  - a harness function (PEP316 contract) that calls the real functions with symbolic
                   arguments; decided by CrossHair/z3 ("Confirmed over all paths" or counterexample).
* ``direct``     - a python function that builds z3/cvc5 queries from live repository objects
                   (construct layouts, compiled regexes, code tables, numeric proxies) and returns
                   unsat / sat(model) / unknown.

Verdicts: discharged | violated (reproduced counterexample) | known (reproduced, listed finding)
          | inconclusive (timeout, unknown, harness error, non-reproducing counterexample).
Exit codes: 0 all discharged/known, 1 at least one violated, 3 otherwise.
"""
from __future__ import annotations

import ast
import concurrent.futures as cf
import dataclasses
import hashlib
import importlib
import inspect
import json
import os
import re
import subprocess
import sys
import time
from dataclasses import dataclass, field

ROOT = os.path.dirname(os.path.dirname(os.path.abspath(__file__)))
PY = os.path.join(ROOT, ".venv", "bin", "python")
OUT = os.environ.get("VERIF_OUT") or ROOT  # scratch evaluations (tools/try_patch.sh SCRATCH=1) write evidence/replays elsewhere
BUILD = os.path.join(ROOT, "build")
REPLAYS = os.path.join(OUT, "replays")
NCPU = int(os.environ.get("VERIF_JOBS", "16"))


def env_for_child(extra=None):
    env = dict(os.environ)
    env["PYTHONPATH"] = os.environ.get("VERIF_REPO", "/repo") + ":" + ROOT
    env["PYTHONDONTWRITEBYTECODE"] = "1"
    env["PYTHONHASHSEED"] = "0"
    env.setdefault("UMR_LOPS_XARRAY_CEOS_ALOS2_VERIF", "1")
    env.setdefault("XDG_CACHE_HOME", os.path.join(BUILD, "xdg"))
    if extra:
        env.update(extra)
    return env


@dataclass
class Ob:
    id: str
    engine: str  # X (CrossHair), L (layout interpreter), R (regex), N (numeric proxies), S (schedules)
    statement: str
    functions: list = field(default_factory=list)  # "module:qualname" of repository code that is executed/encoded
    bounds: str = ""
    outside: str = ""
    # crosshair kind
    harness: str | None = None  # path relative to /verif
    func: str | None = None
    params: dict | None = None  # passed to the harness module as env VH_PARAMS (json)
    ladder: list = field(default_factory=list)  # smaller params to fall back to on timeout
    timeout: int = 120  # per-condition CPU seconds
    path_timeout: int | None = None
    twin: bool = True
    # concrete calls of the harness function replayed under plain CPython when CrossHair reports that the code under analysis is not
    # deterministic between its path iterations (= it keeps state between calls, which CrossHair cannot explore): a failing one is the verdict
    state_witness: list = field(default_factory=list)
    # direct kind
    call: str | None = None  # "module:function"
    kwargs: dict = field(default_factory=dict)
    wall_timeout: int | None = None

    @property
    def kind(self):
        return "crosshair" if self.harness else "direct"


# --------------------------------------------------------------------------- hashing of encoded code


def resolve(qual):
    mod, _, name = qual.partition(":")
    m = importlib.import_module(mod)
    obj = m
    if name:
        for part in name.split("."):
            obj = getattr(obj, part)
    return m, obj


def source_hash(qual):
    """sha256 of the source of a function/class; for data objects (construct structs, regexes, tables)
    the sha256 of the defining module's source file."""
    try:
        m, obj = resolve(qual)
        try:
            if isinstance(obj, property):
                obj = obj.fget
            src = inspect.getsource(obj)
        except (TypeError, OSError):
            src = inspect.getsource(m)
        return hashlib.sha256(src.encode()).hexdigest()[:16]
    except Exception as e:  # noqa: BLE001
        return f"unresolved:{type(e).__name__}"


# --------------------------------------------------------------------------- crosshair driver

_CALL_RE = re.compile(r"when calling (?P<call>.*?)(?: \(which (?:returns|raises) (?P<ret>.*)\))?$")


def parse_crosshair(stdout):
    """-> (status, call, message)  status in confirmed|counterexample|not_confirmed|no_pre|error"""
    status, call, message = None, None, stdout.strip()[-2000:]
    for line in stdout.splitlines():
        if "Confirmed over all paths" in line:
            status = status or "confirmed"
        elif "Not confirmed" in line:
            status = "not_confirmed"
        elif "Unable to meet precondition" in line:
            status = "no_pre"
        elif ": error:" in line:
            m = _CALL_RE.search(line)
            status = "counterexample"
            message = line.split(": error:", 1)[1].strip()
            if m:
                call = m.group("call")
            break
    return status or "error", call, message


def function_line(path, func):
    tree = ast.parse(open(path).read())
    for node in ast.walk(tree):
        if isinstance(node, ast.FunctionDef) and node.name == func:
            return node.lineno + 1, node
    raise KeyError(func)


def make_twin(path, func):
    """reachability twin: same signature and `pre:` lines, body calls the harness and returns False.
    CrossHair must report a counterexample for it (preconditions satisfiable, end of body reached)."""
    _, node = function_line(path, func)
    src = open(path).read()
    doc = ast.get_docstring(node) or ""
    pres = [ln.strip() for ln in doc.splitlines() if ln.strip().startswith("pre:")]
    args = [a.arg for a in node.args.args]
    sig = ", ".join(f"{a.arg}: {ast.unparse(a.annotation)}" for a in node.args.args)
    modname = os.path.splitext(os.path.relpath(path, ROOT))[0].replace(os.sep, ".")
    os.makedirs(BUILD, exist_ok=True)
    import uuid

    out = os.path.join(BUILD, f"twin_{modname.replace('.', '_')}_{func}_{uuid.uuid4().hex[:10]}.py")
    pre_block = "\n".join("    " + p for p in pres)
    with open(out, "w") as f:
        f.write(
            "from typing import *\n"
            f"from {modname} import *\n"
            f"import {modname} as H\n"
            f"def twin({sig}) -> bool:\n"
            f'    """\n{pre_block}\n    post: _\n    """\n'
            f"    H.{func}({', '.join(args)})\n"
            "    return False\n"
        )
    del src
    return out


MIN_TIMEOUT = int(os.environ.get("VERIF_MIN_TIMEOUT", "900"))  # a slow host must not turn a decided obligation into "inconclusive"


def run_crosshair(path, func, params, timeout, path_timeout=None):
    timeout = max(timeout, MIN_TIMEOUT)
    if path_timeout is not None:
        path_timeout = max(path_timeout, MIN_TIMEOUT)
    line, _ = function_line(path, func)
    cmd = [
        PY, "-B", "-m", "crosshair", "check", "--report_all", "--analysis_kind", "PEP316",
        "--per_condition_timeout", str(timeout),
        "--per_path_timeout", str(path_timeout or timeout),
        f"{path}:{line}",
    ]
    env = env_for_child({"VH_PARAMS": json.dumps(params or {})})
    t0 = time.time()
    try:
        p = subprocess.run(cmd, capture_output=True, text=True, env=env, cwd=ROOT, timeout=timeout * 3 + 120)
        out = p.stdout + ("\n" + p.stderr[-1500:] if p.returncode == 2 else "")
    except subprocess.TimeoutExpired:
        return "not_confirmed", None, "wall timeout", time.time() - t0
    status, call, message = parse_crosshair(out)
    return status, call, message, time.time() - t0


def replay_call(path, func, call, params):
    """re-execute the harness concretely (plain CPython, no CrossHair) on the counterexample"""
    modname = os.path.splitext(os.path.relpath(path, ROOT))[0].replace(os.sep, ".")
    code = (
        "import json, sys, traceback\n"
        f"import {modname} as H\n"
        "from typing import *\n"
        "ns = dict(vars(H)); ns.update(float=float, nan=float('nan'), inf=float('inf'))\n"
        "res = {}\n"
        "try:\n"
        f"    r = eval({call!r}, ns)\n"
        "    res = {'outcome': 'returned', 'value': repr(r), 'ok': bool(r)}\n"
        "except Exception as e:\n"
        "    res = {'outcome': 'raised', 'value': type(e).__name__ + ': ' + str(e)[:300], 'ok': False}\n"
        "    tb = traceback.extract_tb(e.__traceback__)\n"
        "    res['where'] = [f'{f.filename}:{f.lineno}' for f in tb[-3:]]\n"
        "    # a signature mismatch raised at a call made by the harness itself is a harness error, not a property violation\n"
        "    if isinstance(e, (TypeError, AttributeError, ImportError)) and tb and ('/verif/' in tb[-1].filename or tb[-1].filename == '<string>'):\n"
        "        res['ok'] = None; res['outcome'] = 'harness-error'\n"
        f"k = getattr(H, 'finding_key_{func}', None)\n"
        "if k is not None and not res['ok']:\n"
        f"    res['finding_key'] = eval('finding_key_' + {call!r}, ns)\n"
        f"a = getattr(H, 'api_replay_{func}', None)\n"
        "if a is not None and not res['ok']:\n"
        "    try:\n"
        f"        res['api'] = eval('api_replay_' + {call!r}, ns)\n"
        "    except Exception as e:\n"
        "        res['api'] = {'error': type(e).__name__ + ': ' + str(e)[:300]}\n"
        f"res['api_gate'] = bool(getattr(H, 'api_gate_{func}', False))\n"
        "print('@@' + json.dumps(res, default=repr))\n"
    )
    env = env_for_child({"VH_PARAMS": json.dumps(params or {})})
    try:
        p = subprocess.run([PY, "-B", "-c", code], capture_output=True, text=True, env=env, cwd=ROOT, timeout=600)
    except subprocess.TimeoutExpired:
        return {"outcome": "timeout", "ok": None}
    for line in p.stdout.splitlines():
        if line.startswith("@@"):
            return json.loads(line[2:])
    return {"outcome": "replay-error", "ok": None, "stderr": p.stderr[-800:]}


def run_ob_crosshair(ob: Ob):
    path = os.path.join(ROOT, ob.harness)
    res = {"id": ob.id, "engine": ob.engine, "kind": "crosshair", "harness": f"{ob.harness}:{ob.func}"}
    rungs = [ob.params] + list(ob.ladder)
    total = 0.0
    for rung_no, params in enumerate(rungs):
        status, call, message, dt = run_crosshair(path, ob.func, params, ob.timeout, ob.path_timeout)
        total += dt
        res.update(params=params, rung=rung_no, crosshair=status, message=message[:600], solver_s=round(total, 2))
        if status in ("confirmed", "counterexample"):
            break
    if status == "confirmed":
        if ob.twin:
            twin = make_twin(path, ob.func)
            try:
                tstatus, tcall, tmsg, tdt = run_crosshair(twin, "twin", params, max(60, ob.timeout // 2), ob.path_timeout)
            finally:
                try:
                    os.remove(twin)
                except OSError:
                    pass
            res["twin"] = tstatus
            res["witness"] = tcall
            res["solver_s"] = round(total + tdt, 2)
            if tstatus != "counterexample":
                res.update(verdict="inconclusive", reason=f"vacuity twin not violated ({tstatus}): {tmsg[:300]}")
                return res
        res["verdict"] = "discharged"
        return res
    if status == "counterexample":
        if call is None:
            if "NotDeterministic" in message and ob.state_witness:
                for wcall in ob.state_witness:
                    rep = replay_call(path, ob.func, wcall, params)
                    if rep.get("ok") is False:
                        res["cex"] = {"call": wcall, "replay": rep, "note": "CrossHair: execution differs between iterations (state kept between calls); concrete witness sequence fails"}
                        res["verdict"] = "violated"
                        res["finding_key"] = f"{ob.id}:{wcall}"
                        return res
            res.update(verdict="inconclusive", reason="counterexample without call expression: " + message[:300])
            return res
        rep = replay_call(path, ob.func, call, params)
        res["cex"] = {"call": call, "replay": rep}
        if rep.get("ok") is False and rep.get("api_gate") and not (rep.get("api") or {}).get("reproduced"):
            # the obligation checks an ASSUMPTION of the proof (not the property itself): without an API-level reproduction it only
            # means the proof no longer applies
            res.update(verdict="inconclusive", reason="a proof assumption no longer holds but the API-level replay found no property violation")
        elif rep.get("ok") is False:
            res["verdict"] = "violated"
            res["finding_key"] = rep.get("finding_key") or f"{ob.id}:{call}"
        else:
            res.update(verdict="inconclusive", reason="counterexample did not reproduce under plain CPython (model/stub issue)")
        return res
    res.update(verdict="inconclusive", reason=f"crosshair: {status}")
    return res


def run_ob_direct(ob: Ob, tier):
    res = {"id": ob.id, "engine": ob.engine, "kind": "direct", "call": ob.call}
    kwargs = dict(ob.kwargs, tier=tier)
    code = (
        "import json, sys\n"
        "from vlib.core import resolve\n"
        f"_, f = resolve({ob.call!r})\n"
        f"r = f(**json.loads({json.dumps(kwargs)!r}))\n"
        "print('@@' + json.dumps(r, default=repr))\n"
    )
    t0 = time.time()
    try:
        p = subprocess.run([PY, "-B", "-c", code], capture_output=True, text=True, env=env_for_child(), cwd=ROOT,
                           timeout=ob.wall_timeout or 1800)
    except subprocess.TimeoutExpired:
        res.update(verdict="inconclusive", reason="wall timeout", solver_s=round(time.time() - t0, 2))
        return res
    out = None
    for line in p.stdout.splitlines():
        if line.startswith("@@"):
            out = json.loads(line[2:])
    if out is None:
        res.update(verdict="inconclusive", reason="obligation crashed: " + p.stderr[-1200:], solver_s=round(time.time() - t0, 2))
        return res
    res.update(out)
    res.setdefault("solver_s", round(time.time() - t0, 2))
    if res.get("verdict") == "violated":
        res.setdefault("finding_key", f"{ob.id}:{json.dumps(res.get('cex'), default=repr, sort_keys=True)[:200]}")
    return res


def run_ob(ob: Ob, tier):
    try:
        r = run_ob_crosshair(ob) if ob.kind == "crosshair" else run_ob_direct(ob, tier)
    except Exception as e:  # noqa: BLE001
        r = {"id": ob.id, "engine": ob.engine, "verdict": "inconclusive", "reason": f"driver error {type(e).__name__}: {e}"}
    r["statement"] = ob.statement
    r["bounds"] = ob.bounds
    r["outside"] = ob.outside
    r["functions"] = [{"qualname": q, "sha256": source_hash(q)} for q in ob.functions]
    return r


# --------------------------------------------------------------------------- known findings


def load_known():
    path = os.path.join(ROOT, "spec", "known_findings.json")
    if not os.path.exists(path):
        return []
    return json.load(open(path)).get("findings", [])


def match_known(prop, key, known):
    for k in known:
        if k.get("status") != "open" or k["property"] != prop:
            continue
        if re.fullmatch(k["key_regex"], key or ""):
            return k
    return None


# --------------------------------------------------------------------------- property runner


def run_property(prop_id, mod, tier, seed):
    t0 = time.time()
    known = load_known()
    obs = mod.obligations(tier)
    results = []
    pre_fail = None
    if hasattr(mod, "validate_stubs"):
        try:
            stubs = mod.validate_stubs()
        except Exception as e:  # noqa: BLE001
            stubs = {"error": f"{type(e).__name__}: {e}"}
            pre_fail = f"stub/model conformance failed: {stubs['error']}"
    else:
        stubs = {}
    if pre_fail is None:
        # longest first
        order = sorted(obs, key=lambda o: -(o.timeout if o.kind == "crosshair" else (o.wall_timeout or 60)))
        with cf.ThreadPoolExecutor(NCPU) as ex:
            futs = {ex.submit(run_ob, ob, tier): ob for ob in order}
            for fut in cf.as_completed(futs):
                results.append(fut.result())
        results.sort(key=lambda r: [o.id for o in obs].index(r["id"]))
    violations, known_hits, inconclusive = [], [], []
    for r in results:
        if r["verdict"] == "violated":
            k = match_known(prop_id, r.get("finding_key"), known)
            if k:
                r["verdict"] = "known"
                r["known_finding"] = k["id"]
                known_hits.append((k, r))
            else:
                violations.append(r)
        elif r["verdict"] == "inconclusive":
            inconclusive.append(r)
    lines = []
    for kid in sorted({k["id"] for k, _ in known_hits}):
        k = next(k for k, _ in known_hits if k["id"] == kid)
        lines.append(f"KNOWN-FINDING: property={prop_id} {k['id']} {k['what']}")
    os.makedirs(os.path.join(REPLAYS, prop_id), exist_ok=True)
    for i, r in enumerate(violations):
        rp = os.path.join(REPLAYS, prop_id, f"{r['id']}.json")
        json.dump({"property": prop_id, "obligation": r, "tier": tier}, open(rp, "w"), indent=1, default=repr)
        lines.append(f"VIOLATION property={prop_id} replay={rp}")
    discharged = sum(1 for r in results if r["verdict"] in ("discharged",))
    wall = time.time() - t0
    samples = []
    for r in results[:40]:
        s = {"obligation": r["id"], "verdict": r["verdict"], "statement": r["statement"][:300]}
        for key in ("witness", "cex", "params", "bounds"):
            if r.get(key):
                s[key] = r[key]
        samples.append(s)
    evidence = {
        "property_id": prop_id,
        "tier": tier,
        "seed": seed,
        "level": getattr(mod, "LEVEL", "other"),
        "coverage": {
            "explanation": mod.EXPLANATION,
            "obligations": len(obs),
            "discharged": discharged,
            "known_findings_reobserved": [k["id"] for k, _ in known_hits],
            "inconclusive": [r["id"] for r in inconclusive],
            "violated": [r["id"] for r in violations],
            "per_obligation": results,
            "samples": samples,
            "queries_discharged": sum(int(r.get("queries", 1)) for r in results if r["verdict"] == "discharged"),
            "solver_s_total": round(sum(float(r.get("solver_s", 0)) for r in results), 2),
            "stubs_validated": stubs,
            "trusted_base": getattr(mod, "TRUSTED", []),
            "checker_cmd": f"./check {prop_id} {tier}",
            "evaluations": max(1, sum(int(r.get("queries", 1)) for r in results)),
            "distinct_nontrivial": discharged,
            "rule": "one evaluation = one solver query / CrossHair condition; distinct_nontrivial = obligations discharged "
                    "(each a different statement with a reachability witness)",
        },
        "assumptions": getattr(mod, "ASSUMPTIONS", []),
        "wall_s": round(wall, 2),
        "violations": len(violations),
    }
    if pre_fail:
        evidence["coverage"]["explanation"] += " | RUN ABORTED: " + pre_fail
    os.makedirs(os.path.join(OUT, "evidence"), exist_ok=True)
    json.dump(evidence, open(os.path.join(OUT, "evidence", f"{prop_id}.json"), "w"), indent=1, default=repr)
    for r in results:
        extra = ""
        if r["verdict"] == "inconclusive":
            extra = " :: " + str(r.get("reason"))[:300]
        if r["verdict"] in ("violated", "known"):
            extra = " :: " + json.dumps(r.get("cex"), default=repr)[:400]
        print(f"  [{r['verdict']:12s}] {r['id']:24s} {r.get('solver_s', 0):>7}s{extra}")
    for ln in lines:
        print(ln)
    if violations:
        code = 1
    elif inconclusive or pre_fail:
        code = 3
        print(f"INCONCLUSIVE property={prop_id}: " + (pre_fail or ", ".join(r["id"] for r in inconclusive)))
    else:
        code = 0
    print(f"{prop_id} {tier}: obligations={len(obs)} discharged={discharged} known={len(known_hits)} "
          f"violated={len(violations)} inconclusive={len(inconclusive)} wall={wall:.1f}s exit={code}")
    return code
