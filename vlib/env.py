"""Environment model (contract stubs) shared by the CrossHair harnesses.

Everything here stands for a *library* boundary (fsspec files, construct parsing of a record array,
numpy stacking/indexing, json, pathlib) - never for repository code.  Each stub raises where the
library raises.  `props/*.validate_stubs` compares them with the real libraries on every run.
"""
import json as _json


class Obj(dict):
    """attribute-access dict, like construct's Container"""

    def __getattr__(self, k):
        try:
            return self[k]
        except KeyError:
            raise AttributeError(k) from None

    __setattr__ = dict.__setitem__


def clamp_slice(n, s):
    """python slice clamping for step None/1 on a sequence of length n -> (a, b) with a <= b"""
    a = 0 if s.start is None else s.start
    b = n if s.stop is None else s.stop
    a = max(n + a, 0) if a < 0 else min(a, n)
    b = max(n + b, 0) if b < 0 else min(b, n)
    if b < a:
        b = a
    return a, b


class Span:
    """abstract bytes object: the bytes file[lo:hi] of one abstract file (positional identity)"""

    def __init__(self, lo, hi, tag=None):
        self.lo, self.hi, self.tag = lo, hi, tag

    def __len__(self):
        return self.hi - self.lo

    def __getitem__(self, s):
        if not isinstance(s, slice):
            raise TypeError("Span supports slices only")
        if s.step not in (None, 1):
            raise TypeError("Span: step")
        a, b = clamp_slice(self.hi - self.lo, s)
        sp = Span(self.lo + a, self.lo + b, self.tag)
        sp.origin = getattr(self, "origin", None)
        return sp

    def __eq__(self, o):
        return isinstance(o, Span) and (self.lo, self.hi, self.tag) == (o.lo, o.hi, o.tag)

    def __repr__(self):
        return f"Span({self.lo},{self.hi})"


class SpanFile:
    """file object of symbolic size; read(n) returns the span actually available and advances.
    `origin` identifies the filesystem instance the bytes come from (two products may hold files of the same name)."""

    def __init__(self, size, log, tag=None, origin=None):
        # only what every binary file object offers (io.RawIOBase: read / seek / tell / close / context manager): the byte count is private
        # - fsspec files of some filesystems (tar://, custom ones returning BytesIO) have no `.size`
        self._nbytes, self.pos, self.log, self.tag = size, 0, log, tag
        self.origin = origin
        self.closed = False

    def seek(self, o, whence=0):
        if whence != 0:
            raise NotImplementedError
        self.log.append(("seek", self.tag, o))
        self.pos = o
        return o

    def tell(self):
        return self.pos

    def read(self, n=-1):
        lo = min(self.pos, self._nbytes)
        hi = self._nbytes if (n is None or n < 0) else min(self.pos + n, self._nbytes)
        self.log.append(("read", self.tag, self.pos, n))
        self.pos = hi
        sp = Span(lo, hi, self.tag)
        sp.origin = self.origin
        return sp

    def close(self):
        self.closed = True

    def __enter__(self):
        return self

    def __exit__(self, *a):
        self.log.append(("close", self.tag))
        self.closed = True
        return False


class StubFS:
    """filesystem with named files of given sizes; open() of an unknown name raises FileNotFoundError"""

    _count = [0]

    def __init__(self, files, log=None, path=None, protocol="file"):
        StubFS._count[0] += 1
        self.uid = StubFS._count[0]
        self.files = files  # name -> size
        self.log = [] if log is None else log
        self.path = path
        self.protocol = protocol

    def open(self, url, mode="rb", **kw):
        self.log.append(("open", url, mode))
        if url not in self.files:
            raise FileNotFoundError(url)
        return SpanFile(self.files[url], self.log, tag=url, origin=self.uid)


class RecParser:
    """stands for `record_struct[k].parse(chunk)`.  Contract = obligation C01.rec (proved on the real
    structs by the layout interpreter): record i starts at i*L, its data at i*L+H, stops at (i+1)*L;
    parsing needs k*L bytes, otherwise construct raises StreamError."""

    def __init__(self, k, H, L, extra=None):
        self.k, self.H, self.L, self.extra = k, H, L, extra

    def parse(self, content):
        if len(content) < self.k * self.L:
            raise EOFError("stream read less than specified amount")
        recs = []
        for i in range(self.k):
            r = Obj(
                record_start=i * self.L,
                data=Obj(start=i * self.L + self.H, stop=(i + 1) * self.L, size=self.L - self.H),
                origin=content.lo + i * self.L,
            )
            recs.append(r)
        return recs


class RecStruct:
    def __init__(self, H, L):
        self.H, self.L = H, L

    def __getitem__(self, k):
        return RecParser(k, self.H, self.L)


class Preamble:
    def __init__(self, record_type):
        self.record_type = record_type

    def parse(self, content):
        if len(content) < 12:
            raise EOFError("stream read less than specified amount")
        return Obj(record_type=self.record_type)


class Rows(list):
    """stand-in for np.stack(parts, axis=0): a list of row objects; raises like numpy on empty input"""


def stub_stack(parts, axis=0):
    parts = list(parts)
    if not parts:
        raise ValueError("need at least one array to stack")
    return Rows(parts)


class JSONDecodeError(ValueError):
    pass


JSONDecodeError = _json.JSONDecodeError
