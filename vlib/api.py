"""API-level replays: counterexamples are pushed through open_alos2 / DataArray.isel on synthesised products."""
import os
import shutil
import tempfile

import numpy as np


def with_product(fn, level="1.5", **kw):
    from vlib import synth

    root = tempfile.mkdtemp(prefix="vreplay_")
    os.environ["XDG_CACHE_HOME"] = os.path.join(root, "_xdg")
    try:
        datas = synth.product(synth.dir_writer(os.path.join(root, "prod")), level, **kw)
        return fn(os.path.join(root, "prod"), datas)
    finally:
        shutil.rmtree(root, ignore_errors=True)


def indexing(n, m, rpc, rk, ck, level="1.5"):
    """-> dict(reproduced=bool, detail=...): DataArray.isel(rows=rk, columns=ck) vs numpy on the full sample matrix"""
    import ceos_alos2

    def run(root, datas):
        name, full = next(iter(datas.items()))
        tree = ceos_alos2.open_alos2(root, backend_options={"use_cache": False, "records_per_chunk": rpc})
        da = tree["imagery/HH/data"]
        want = full[rk, ck]
        try:
            got = da.isel(rows=rk, columns=ck).values
        except Exception as e:  # noqa: BLE001
            return {"reproduced": True, "detail": f"isel raised {type(e).__name__}: {e}", "want_shape": list(np.shape(want))}
        same = np.shape(got) == np.shape(want) and np.array_equal(got, want)
        return {"reproduced": not same, "detail": f"got shape {np.shape(got)}, want {np.shape(want)}"}

    return with_product(run, level=level, n=n, p=m, pols=("HH",))


def tree_diff(a, b):
    """-> list of differences between two DataTrees (structure, dims, dtypes, coords, attrs, values, encodings aside)"""
    import xarray as xr

    diffs = []
    pa = {n.path: n for n in a.subtree}
    pb = {n.path: n for n in b.subtree}
    if list(pa) != list(pb):
        diffs.append(f"node paths differ: {list(pa)} vs {list(pb)}")
    for p in pa:
        if p not in pb:
            continue
        da, db = pa[p].to_dataset(), pb[p].to_dataset()
        if list(da.variables) != list(db.variables):
            diffs.append(f"{p}: variables {list(da.variables)} vs {list(db.variables)}")
            continue
        if set(da.coords) != set(db.coords):
            diffs.append(f"{p}: coords differ")
        if not _attrs_equal(da.attrs, db.attrs):
            diffs.append(f"{p}: attrs differ: {da.attrs} vs {db.attrs}")
        for name in da.variables:
            va, vb = da.variables[name], db.variables[name]
            if va.dims != vb.dims or va.shape != vb.shape:
                diffs.append(f"{p}/{name}: dims/shape {va.dims}{va.shape} vs {vb.dims}{vb.shape}")
                continue
            if np.dtype(va.dtype).newbyteorder("=") != np.dtype(vb.dtype).newbyteorder("="):
                diffs.append(f"{p}/{name}: dtype {va.dtype} vs {vb.dtype}")
            if not _attrs_equal(va.attrs, vb.attrs):
                diffs.append(f"{p}/{name}: attrs differ")
            try:
                xa, xb = np.asarray(va.values), np.asarray(vb.values)
                if xa.dtype.kind == "O" or xb.dtype.kind == "O":
                    same = xa.tolist() == xb.tolist()
                else:
                    same = np.array_equal(xa, xb, equal_nan=xa.dtype.kind in "fc")
                if not same:
                    diffs.append(f"{p}/{name}: values differ")
            except Exception as e:  # noqa: BLE001
                diffs.append(f"{p}/{name}: loading raised {type(e).__name__}: {e}")
    return diffs


def _attrs_equal(a, b):
    if list(a) != list(b):
        return False
    for k in a:
        x, y = a[k], b[k]
        try:
            if isinstance(x, float) and isinstance(y, float) and x != x and y != y:
                continue
            if isinstance(x, np.ndarray) or isinstance(y, np.ndarray):
                if not np.array_equal(np.asarray(x), np.asarray(y)):
                    return False
                continue
            if x != y or type(x) is not type(y):
                return False
        except Exception:  # noqa: BLE001
            return False
    return True


def cache_transparency(protocol="file", level="1.5", rpc_w=2, rpc_r=3, producer="option", location="local", n=5, p=4):
    """write a cache with `producer` (option create_cache=True | cli), then compare use_cache=True with use_cache=False"""
    import fsspec

    import ceos_alos2
    from vlib import synth

    root = tempfile.mkdtemp(prefix="vcache_")
    os.environ["XDG_CACHE_HOME"] = os.path.join(root, "_xdg")
    import platformdirs

    from ceos_alos2.sar_image.caching import path as cpath

    cpath.cache_root = platformdirs.user_cache_path(cpath.project_name)
    try:
        if protocol == "memory":
            fs = fsspec.filesystem("memory")
            base = f"/vprod_{os.path.basename(root)}"

            def write(name, data):
                fs.pipe_file(f"{base}/{name}", data)

            url = f"memory://{base}"
        else:
            base = os.path.join(root, "prod")
            write = synth.dir_writer(base)
            url = base if protocol == "file" else f"file://{base}"
        datas = synth.product(write, level, n=n, p=p, pols=("HH", "HV"))
        out = {"url": url}
        if producer == "option":
            ceos_alos2.open_alos2(url, backend_options={"use_cache": False, "create_cache": True, "records_per_chunk": rpc_w})
        else:
            import pathlib

            from ceos_alos2.sar_image import cli

            for name in datas:
                cli.create_cache(pathlib.Path(base) / name, None, rpc_w)
        if location == "adjacent" and producer == "option":
            # move the user-cache files next to the images
            import glob

            for f in glob.glob(os.path.join(cpath.cache_root, "*", "*.index")):
                if protocol == "memory":
                    fs.pipe_file(f"{base}/{os.path.basename(f)}", open(f, "rb").read())
                    os.remove(f)
                else:
                    shutil.move(f, os.path.join(base, os.path.basename(f)))
        cached = ceos_alos2.open_alos2(url, backend_options={"use_cache": True, "records_per_chunk": rpc_r})
        plain = ceos_alos2.open_alos2(url, backend_options={"use_cache": False, "records_per_chunk": rpc_r})
        diffs = tree_diff(plain, cached)
        enc = [cached[f"imagery/{pol}/data"].encoding == plain[f"imagery/{pol}/data"].encoding for pol in ("HH", "HV")]
        if not all(enc):
            diffs.append("encoding (preferred chunks) differs between cached and uncached open")
        for name, d in datas.items():
            pol = name.split("-")[1]
            if not np.array_equal(cached[f"imagery/{pol}/data"].values, d):
                diffs.append(f"cached pixels of {pol} differ from the synthesised samples")
        out.update(reproduced=bool(diffs), diffs=diffs[:6])
        return out
    except Exception as e:  # noqa: BLE001
        import traceback

        return {"reproduced": True, "error": f"{type(e).__name__}: {e}", "tb": traceback.format_exc()[-600:]}
    finally:
        shutil.rmtree(root, ignore_errors=True)
        if protocol == "memory":
            try:
                fs.rm(base, recursive=True)
            except Exception:  # noqa: BLE001
                pass


def cache_states(local, remote, k_frac=0.5, use_cache=True, create_cache=False, level="1.5", rpc=3):
    """put the two cache locations of every image into the given states (0 absent, 1 complete, 2 torn after k_frac of the
    document), open through open_alos2 with the given options and compare with an uncached open"""
    import glob

    import platformdirs

    import ceos_alos2
    from ceos_alos2.sar_image.caching import path as cpath
    from vlib import synth

    root = tempfile.mkdtemp(prefix="vstates_")
    os.environ["XDG_CACHE_HOME"] = os.path.join(root, "_xdg")
    cpath.cache_root = platformdirs.user_cache_path(cpath.project_name)
    try:
        base = os.path.join(root, "prod")
        datas = synth.product(synth.dir_writer(base), level, n=5, p=4, pols=("HH", "HV"))
        ceos_alos2.open_alos2(base, backend_options={"use_cache": False, "create_cache": True, "records_per_chunk": 2})
        docs = {}
        for f in glob.glob(os.path.join(cpath.cache_root, "*", "*.index")):
            docs[f] = open(f).read()
        if len(docs) != len(datas):
            return {"reproduced": True, "error": f"create_cache=True wrote {len(docs)} index files for {len(datas)} images"}
        for f, doc in docs.items():
            cut = min(int(len(doc) * k_frac), len(doc) - 1)
            adj = os.path.join(base, os.path.basename(f))
            for where, state in ((f, local), (adj, remote)):
                if state == 0:
                    if os.path.exists(where):
                        os.remove(where)
                else:
                    with open(where, "w") as fh:
                        fh.write(doc if state == 1 else doc[:cut])
        listing_before = sorted(os.listdir(base))
        try:
            got = ceos_alos2.open_alos2(base, backend_options={"use_cache": use_cache, "create_cache": create_cache, "records_per_chunk": rpc})
        except Exception as e:  # noqa: BLE001
            return {"reproduced": True, "error": f"open_alos2 raised {type(e).__name__}: {str(e)[:200]}"}
        plain = ceos_alos2.open_alos2(base, backend_options={"use_cache": False, "records_per_chunk": rpc})
        diffs = tree_diff(plain, got)
        for name, d in datas.items():
            pol = name.split("-")[1]
            if not np.array_equal(got[f"imagery/{pol}/data"].values, d):
                diffs.append(f"pixels of {pol} differ from the synthesised samples")
        if sorted(os.listdir(base)) != listing_before:
            diffs.append("the product directory was modified")
        return {"reproduced": bool(diffs), "diffs": diffs[:6]}
    finally:
        shutil.rmtree(root, ignore_errors=True)


def history(level="1.5"):
    """a fixed multi-step history of opens / CLI cache creation / deletions; every open must equal a fresh uncached open"""
    import copy
    import glob
    import hashlib
    import pathlib

    import platformdirs

    import ceos_alos2
    from ceos_alos2.sar_image import cli
    from ceos_alos2.sar_image.caching import path as cpath
    from vlib import synth

    root = tempfile.mkdtemp(prefix="vhist_")
    os.environ["XDG_CACHE_HOME"] = os.path.join(root, "_xdg")
    cpath.cache_root = platformdirs.user_cache_path(cpath.project_name)
    try:
        base = os.path.join(root, "prod")
        datas = synth.product(synth.dir_writer(base), level, n=5, p=4, pols=("HH", "HV"))

        def snapshot():
            return {f: hashlib.sha256(open(os.path.join(base, f), "rb").read()).hexdigest() for f in sorted(os.listdir(base))}

        snap0 = snapshot()
        steps = [("open", True, False, 2), ("open", True, True, 3), ("open", True, False, 7), ("cli", None, None, 4), ("open", True, False, 1),
                 ("del_local",), ("open", True, False, 5), ("del_adj",), ("open", False, True, 2), ("open", True, False, 6), ("open", False, False, 5)]
        for i, st in enumerate(steps):
            if st[0] == "open":
                opts = {"use_cache": st[1], "create_cache": st[2], "records_per_chunk": st[3], "storage_options": {}}
                keep = copy.deepcopy(opts)
                try:
                    got = ceos_alos2.open_alos2(base, backend_options=opts)
                except Exception as e:  # noqa: BLE001
                    return {"reproduced": True, "step": i, "op": st, "error": f"{type(e).__name__}: {str(e)[:200]}", "steps": i}
                if opts != keep:
                    return {"reproduced": True, "step": i, "op": st, "error": "backend_options mutated", "steps": i}
                plain = ceos_alos2.open_alos2(base, backend_options={"use_cache": False, "records_per_chunk": st[3]})
                diffs = tree_diff(plain, got)
                for pol in ("HH", "HV"):
                    if got[f"imagery/{pol}/data"].encoding != plain[f"imagery/{pol}/data"].encoding:
                        diffs.append("preferred chunks differ")
                if diffs:
                    return {"reproduced": True, "step": i, "op": st, "diffs": diffs[:5], "steps": i}
            elif st[0] == "cli":
                for name in datas:
                    cli.create_cache(pathlib.Path(base) / name, None, st[3])
            elif st[0] == "del_local":
                for f in glob.glob(os.path.join(cpath.cache_root, "*", "*.index")):
                    os.remove(f)
            elif st[0] == "del_adj":
                for f in glob.glob(os.path.join(base, "*.index")):
                    os.remove(f)
            now = {k: v for k, v in snapshot().items() if not k.endswith(".index")}
            if now != snap0:
                return {"reproduced": True, "step": i, "op": st, "error": "product directory modified", "steps": i}
            extra = [k for k in snapshot() if k.endswith(".index")]
            if extra and not any(s[0] == "cli" for s in steps[: i + 1]):
                return {"reproduced": True, "step": i, "op": st, "error": f"index files appeared in the product directory: {extra}", "steps": i}
        return {"reproduced": False, "steps": len(steps)}
    finally:
        shutil.rmtree(root, ignore_errors=True)


def typed_tree(level="1.5", pols=("HH",), scans=(None,)):
    """open a synthesised product and compare what every variable ADVERTISES (dtype, shape) with what loading gives; type discipline"""
    import ceos_alos2

    def plain(v):
        if v is None or isinstance(v, (bool, int, float, complex, str, np.generic)):
            return True
        if isinstance(v, (list, tuple)):
            return all(plain(e) for e in v)
        if isinstance(v, np.ndarray):
            return v.dtype.kind in "biufcMmU"
        return False

    def run(root, datas):
        bad = []
        tree = ceos_alos2.open_alos2(root, backend_options={"use_cache": False, "records_per_chunk": 2})
        try:
            repr(tree)
        except Exception as e:  # noqa: BLE001
            bad.append(f"repr(tree) raised {type(e).__name__}: {str(e)[:80]}")
        for node in tree.subtree:
            ds = node.to_dataset()
            try:
                ds.nbytes
            except Exception as e:  # noqa: BLE001
                bad.append(f"{node.path}: nbytes raised {type(e).__name__}: {str(e)[:80]}")
            for k, v in ds.attrs.items():
                if not plain(v):
                    bad.append(f"{node.path}@{k}: attribute of type {type(v).__name__}")
            for name, var in ds.variables.items():
                declared_dtype, declared_shape = var.dtype, var.shape
                if not isinstance(declared_dtype, np.dtype):
                    bad.append(f"{node.path}/{name}: declared dtype {declared_dtype!r} is not a numpy dtype")
                    continue
                vals = np.asarray(var.values)
                if vals.dtype.newbyteorder("=") != np.dtype(declared_dtype).newbyteorder("=") or vals.shape != tuple(declared_shape):
                    bad.append(f"{node.path}/{name}: declared {declared_dtype}{declared_shape}, loaded {vals.dtype}{vals.shape}")
                if vals.dtype.kind not in "biufcMmU":
                    bad.append(f"{node.path}/{name}: dtype kind {vals.dtype.kind!r} ({str(vals.flat[0])[:40] if vals.size else ''})")
                for k, v in var.attrs.items():
                    if not plain(v):
                        bad.append(f"{node.path}/{name}@{k}: attribute of type {type(v).__name__}")
        return {"reproduced": bool(bad), "detail": bad[:6]}

    return with_product(run, level=level, n=3, p=2, pols=pols, scans=scans)


def indexing_kinds(level="1.5", rpc=2, n=5, m=4):
    """every kind of indexing xarray accepts on the lazy image vs the same operation on the loaded image (shape, dims, coords, values, dtype)"""
    import xarray as xr

    import ceos_alos2

    def run(root, datas):
        tree = ceos_alos2.open_alos2(root, backend_options={"use_cache": False, "records_per_chunk": rpc})
        lazy = tree["imagery/HH"].to_dataset()["data"]
        full = lazy.load().copy() if False else tree["imagery/HH"].to_dataset()["data"].copy(deep=True).load()
        pts = xr.DataArray([0, n - 1, 2], dims="points")
        ptc = xr.DataArray([m - 1, 0, 1], dims="points")
        keys = [
            dict(rows=[0, 2], columns=[1, 3]), dict(rows=[n - 1, 0], columns=slice(None)), dict(rows=slice(None, None, -1), columns=slice(None, None, -2)),
            dict(rows=np.array([True, False] * (n // 2) + [True] * (n % 2)), columns=np.array([False, True] * (m // 2) + [True] * (m % 2))),
            dict(rows=pts, columns=ptc), dict(rows=pts), dict(columns=ptc), dict(rows=-1, columns=slice(1, 2)), dict(rows=slice(2, 2), columns=slice(1, 3)),
            dict(rows=slice(3, 1), columns=0), dict(rows=[1, 1, 1], columns=-1), dict(rows=slice(4, 0, -2)), dict(rows=2, columns=[0]), dict(rows=xr.DataArray([[0, 1], [2, 3]], dims=("a", "b"))),
        ]
        bad = []
        for key in keys:
            try:
                want = full.isel(**key)
            except Exception:  # noqa: BLE001
                continue
            try:
                got = lazy.isel(**key)
                gv = got.values
            except Exception as e:  # noqa: BLE001
                bad.append(f"isel({_short(key)}) raised {type(e).__name__}: {str(e)[:80]}")
                continue
            if got.dims != want.dims or got.shape != want.shape or gv.shape != want.values.shape:
                bad.append(f"isel({_short(key)}): declared {got.dims}{got.shape}, loaded {gv.shape}, expected {want.dims}{want.shape}")
            elif not np.array_equal(gv, want.values) or gv.dtype.newbyteorder("=") != want.values.dtype.newbyteorder("="):
                bad.append(f"isel({_short(key)}): values/dtype differ")
            elif set(got.coords) != set(want.coords) or any(not np.array_equal(got.coords[c].values, want.coords[c].values) for c in want.coords):
                bad.append(f"isel({_short(key)}): coordinates differ")
        name, d = next(iter(datas.items()))
        if not np.array_equal(full.values, d):
            bad.append("fully loaded image differs from the synthesised samples")
        return {"reproduced": bool(bad), "detail": bad[:6], "keys": len(keys)}

    return with_product(run, level=level, n=n, p=m, pols=("HH",))


def _short(key):
    return ", ".join(f"{k}={(v.values.tolist() if hasattr(v, 'values') else v)!r}" for k, v in key.items())[:100]


def assembly(level="1.5", pols=("HH", "HV"), scans=(None,), with_mp=True, use_cache_cycle=False, pid=None):
    """tree assembly of a synthesised product: children, one group per image in summary order with its own pixels, record groups, root attrs, coordinates"""
    import ceos_alos2
    from ceos_alos2.sar_leader.io import parse_data as parse_leader
    from ceos_alos2.volume_directory.io import open_volume_directory

    def run(root, datas):
        bad = []
        opts = {"use_cache": False, "records_per_chunk": 2}
        if use_cache_cycle:
            ceos_alos2.open_alos2(root, backend_options={"use_cache": True, "create_cache": True, "records_per_chunk": 3})
            opts = {"use_cache": True, "records_per_chunk": 2}
        tree = ceos_alos2.open_alos2(root, backend_options=opts)
        if sorted(tree.children) != ["imagery", "metadata", "summary"]:
            bad.append(f"children {list(tree.children)}")
        want_names = []
        for name in datas:
            parts = name.split("-")
            pol = parts[1]
            scan = parts[-1] if len(parts) == 6 else None
            want_names.append(pol + (f"_scan{scan[1]}" if scan else ""))
        got_names = list(tree["imagery"].children)
        if got_names != want_names:
            bad.append(f"imagery groups {got_names}, expected {want_names}")
        for gname, (fname, d) in zip(want_names, datas.items()):
            if gname not in tree["imagery"].children:
                continue
            node = tree[f"imagery/{gname}"]
            if not np.array_equal(node["data"].values, d):
                bad.append(f"imagery/{gname} does not hold the pixels of {fname}")
            ds = node.to_dataset()
            if "coordinates" in ds.attrs:
                bad.append(f"imagery/{gname}: bookkeeping attribute 'coordinates' left")
            if not {"rows", "sensor_acquisition_date"} <= set(ds.coords):
                bad.append(f"imagery/{gname}: per-line variables are not coordinates: {sorted(ds.coords)[:4]}")
        led = parse_leader(open(os.path.join(root, [f for f in os.listdir(root) if f.startswith("LED-")][0]), "rb").read())
        want_md = [k if k != "facility_related_data_5" else "transformations" for k, v in led.items()
                   if v and k != "file_descriptor" and not (k.startswith("facility_related_data_") and k[-1] in "1234")]
        if list(tree["metadata"].children) != want_md:
            bad.append(f"metadata groups {list(tree['metadata'].children)}, expected {want_md}")
        for sub in ("attitude", "rates"):
            ds = tree[f"metadata/attitude/{sub}"].to_dataset()
            if "time" not in ds.coords or "coordinates" in ds.attrs:
                bad.append(f"metadata/attitude/{sub}: time is not a coordinate")
        import fsspec

        vol = open_volume_directory(fsspec.get_mapper(root), [f for f in os.listdir(root) if f.startswith("VOL-")][0])
        want_attrs = dict(vol.attrs, reference_document="https://www.eorc.jaxa.jp/ALOS-2/en/doc/fdata/PALSAR-2_xx_Format_CEOS_E_f.pdf")
        if dict(tree.attrs) != want_attrs:
            bad.append(f"root attributes differ: {sorted(set(tree.attrs) ^ set(want_attrs))}")
        return {"reproduced": bool(bad), "detail": bad[:6]}

    return with_product(run, level=level, n=3, p=2, pols=pols, scans=scans, leader_kw={"with_mp": with_mp}, pid=pid)
