"""API-level replays: counterexamples are pushed through open_alos2 / DataArray.isel on synthesised products."""
import os
import shutil
import tempfile

import numpy as np


def with_product(fn, level="1.5", **kw):
    from vlib import synth

    root = tempfile.mkdtemp(prefix="vreplay_")
    os.environ["XDG_CACHE_HOME"] = os.path.join(root, "_xdg")
    try:
        datas = synth.product(synth.dir_writer(os.path.join(root, "prod")), level, **kw)
        return fn(os.path.join(root, "prod"), datas)
    finally:
        shutil.rmtree(root, ignore_errors=True)


def indexing(n, m, rpc, rk, ck, level="1.5"):
    """-> dict(reproduced=bool, detail=...): DataArray.isel(rows=rk, columns=ck) vs numpy on the full sample matrix"""
    import ceos_alos2

    def run(root, datas):
        name, full = next(iter(datas.items()))
        tree = ceos_alos2.open_alos2(root, backend_options={"use_cache": False, "records_per_chunk": rpc})
        da = tree["imagery/HH/data"]
        want = full[rk, ck]
        try:
            got = da.isel(rows=rk, columns=ck).values
        except Exception as e:  # noqa: BLE001
            return {"reproduced": True, "detail": f"isel raised {type(e).__name__}: {e}", "want_shape": list(np.shape(want))}
        same = np.shape(got) == np.shape(want) and np.array_equal(got, want)
        return {"reproduced": not same, "detail": f"got shape {np.shape(got)}, want {np.shape(want)}"}

    return with_product(run, level=level, n=n, p=m, pols=("HH",))
