"""API-level replays: counterexamples are pushed through open_alos2 / DataArray.isel on synthesised products."""
import os
import shutil
import tempfile

import numpy as np


def nonmonotonic(nl):
    """image_kw for synth.product: line times that are NOT increasing (descending, the last line later again), so that time offsets
    relative to the first line have both signs"""
    return {"line": lambda i: {"sensor_acquisition_date": {"year": 2020, "day_of_year": 60, "milliseconds": 1000 * ((nl - i) if i < nl - 1 else 2 * nl)},
                               "sensor_acquisition_date_microseconds": 1000000 * ((nl - i) if i < nl - 1 else 2 * nl) + 7}}


def with_product(fn, level="1.5", **kw):
    from vlib import synth

    root = tempfile.mkdtemp(prefix="vreplay_")
    os.environ["XDG_CACHE_HOME"] = os.path.join(root, "_xdg")
    if "image_kw" not in kw:
        kw["image_kw"] = nonmonotonic(kw.get("n", 5))
    try:
        datas = synth.product(synth.dir_writer(os.path.join(root, "prod")), level, **kw)
        return fn(os.path.join(root, "prod"), datas)
    finally:
        shutil.rmtree(root, ignore_errors=True)


def indexing(n, m, rpc, rk, ck, level="1.5"):
    """-> dict(reproduced=bool, detail=...): DataArray.isel(rows=rk, columns=ck) vs numpy on the full sample matrix"""
    import ceos_alos2

    def run(root, datas):
        name, full = next(iter(datas.items()))
        tree = ceos_alos2.open_alos2(root, backend_options={"use_cache": False, "records_per_chunk": rpc})
        da = tree["imagery/HH/data"]
        want = full[rk, ck]
        try:
            got = da.isel(rows=rk, columns=ck).values
        except Exception as e:  # noqa: BLE001
            return {"reproduced": True, "detail": f"isel raised {type(e).__name__}: {e}", "want_shape": list(np.shape(want))}
        same = np.shape(got) == np.shape(want) and np.array_equal(got, want)
        return {"reproduced": not same, "detail": f"got shape {np.shape(got)}, want {np.shape(want)}"}

    return with_product(run, level=level, n=n, p=m, pols=("HH",))


def tree_diff(a, b):
    """-> list of differences between two DataTrees (structure, dims, dtypes, coords, attrs, values, encodings aside)"""
    import xarray as xr

    diffs = []
    pa = {n.path: n for n in a.subtree}
    pb = {n.path: n for n in b.subtree}
    if list(pa) != list(pb):
        diffs.append(f"node paths differ: {list(pa)} vs {list(pb)}")
    for p in pa:
        if p not in pb:
            continue
        da, db = pa[p].to_dataset(), pb[p].to_dataset()
        if list(da.variables) != list(db.variables):
            diffs.append(f"{p}: variables {list(da.variables)} vs {list(db.variables)}")
            continue
        if set(da.coords) != set(db.coords):
            diffs.append(f"{p}: coords differ")
        if not _attrs_equal(da.attrs, db.attrs):
            diffs.append(f"{p}: attrs differ: {da.attrs} vs {db.attrs}")
        for name in da.variables:
            va, vb = da.variables[name], db.variables[name]
            if va.dims != vb.dims or va.shape != vb.shape:
                diffs.append(f"{p}/{name}: dims/shape {va.dims}{va.shape} vs {vb.dims}{vb.shape}")
                continue
            if np.dtype(va.dtype).newbyteorder("=") != np.dtype(vb.dtype).newbyteorder("="):
                diffs.append(f"{p}/{name}: dtype {va.dtype} vs {vb.dtype}")
            if not _attrs_equal(va.attrs, vb.attrs):
                diffs.append(f"{p}/{name}: attrs differ")
            try:
                xa, xb = np.asarray(va.values), np.asarray(vb.values)
                if xa.dtype.kind == "O" or xb.dtype.kind == "O":
                    same = xa.tolist() == xb.tolist()
                else:
                    same = np.array_equal(xa, xb, equal_nan=xa.dtype.kind in "fc")
                if not same:
                    diffs.append(f"{p}/{name}: values differ")
            except Exception as e:  # noqa: BLE001
                diffs.append(f"{p}/{name}: loading raised {type(e).__name__}: {e}")
    return diffs


def _attrs_equal(a, b):
    if list(a) != list(b):
        return False
    for k in a:
        x, y = a[k], b[k]
        try:
            if isinstance(x, float) and isinstance(y, float) and x != x and y != y:
                continue
            if isinstance(x, np.ndarray) or isinstance(y, np.ndarray):
                if not np.array_equal(np.asarray(x), np.asarray(y)):
                    return False
                continue
            if x != y or type(x) is not type(y):
                return False
        except Exception:  # noqa: BLE001
            return False
    return True


def cache_transparency(protocol="file", level="1.5", rpc_w=2, rpc_r=3, producer="option", location="local", n=5, p=4):
    """write a cache with `producer` (option create_cache=True | cli), then compare use_cache=True with use_cache=False"""
    import fsspec

    import ceos_alos2
    from vlib import synth

    root = tempfile.mkdtemp(prefix="vcache_")
    os.environ["XDG_CACHE_HOME"] = os.path.join(root, "_xdg")
    import platformdirs

    from ceos_alos2.sar_image.caching import path as cpath

    cpath.cache_root = platformdirs.user_cache_path(cpath.project_name)
    try:
        if protocol == "memory":
            fs = fsspec.filesystem("memory")
            base = f"/vprod_{os.path.basename(root)}"

            def write(name, data):
                fs.pipe_file(f"{base}/{name}", data)

            url = f"memory://{base}"
        else:
            base = os.path.join(root, "prod")
            write = synth.dir_writer(base)
            url = base if protocol == "file" else f"file://{base}"
        datas = synth.product(write, level, n=n, p=p, pols=("HH", "HV"), image_kw=nonmonotonic(n))
        out = {"url": url}
        if producer == "option":
            ceos_alos2.open_alos2(url, backend_options={"use_cache": False, "create_cache": True, "records_per_chunk": rpc_w})
        else:
            import pathlib

            from ceos_alos2.sar_image import cli

            for name in datas:
                cli.create_cache(pathlib.Path(base) / name, None, rpc_w)
        if location == "adjacent" and producer == "option":
            # move the user-cache files next to the images
            import glob

            for f in glob.glob(os.path.join(cpath.cache_root, "*", "*.index")):
                if protocol == "memory":
                    fs.pipe_file(f"{base}/{os.path.basename(f)}", open(f, "rb").read())
                    os.remove(f)
                else:
                    shutil.move(f, os.path.join(base, os.path.basename(f)))
        cached = ceos_alos2.open_alos2(url, backend_options={"use_cache": True, "records_per_chunk": rpc_r})
        plain = ceos_alos2.open_alos2(url, backend_options={"use_cache": False, "records_per_chunk": rpc_r})
        diffs = tree_diff(plain, cached)
        enc = [cached[f"imagery/{pol}/data"].encoding == plain[f"imagery/{pol}/data"].encoding for pol in ("HH", "HV")]
        if not all(enc):
            diffs.append("encoding (preferred chunks) differs between cached and uncached open")
        for name, d in datas.items():
            pol = name.split("-")[1]
            if not np.array_equal(cached[f"imagery/{pol}/data"].values, d):
                diffs.append(f"cached pixels of {pol} differ from the synthesised samples")
        out.update(reproduced=bool(diffs), diffs=diffs[:6])
        return out
    except Exception as e:  # noqa: BLE001
        import traceback

        return {"reproduced": True, "error": f"{type(e).__name__}: {e}", "tb": traceback.format_exc()[-600:]}
    finally:
        shutil.rmtree(root, ignore_errors=True)
        if protocol in ("memory", "rawio"):
            try:
                fs.rm(base, recursive=True)
            except Exception:  # noqa: BLE001
                pass


def cache_states(local, remote, k_frac=0.5, use_cache=True, create_cache=False, level="1.5", rpc=3, midchar=False):
    """put the two cache locations of every image into the given states (0 absent, 1 complete, 2 torn after k_frac of the
    document), open through open_alos2 with the given options and compare with an uncached open"""
    import glob

    import platformdirs

    import ceos_alos2
    from ceos_alos2.sar_image.caching import path as cpath
    from vlib import synth

    root = tempfile.mkdtemp(prefix="vstates_")
    os.environ["XDG_CACHE_HOME"] = os.path.join(root, "_xdg")
    cpath.cache_root = platformdirs.user_cache_path(cpath.project_name)
    try:
        base = os.path.join(root, "prod")
        datas = synth.product(synth.dir_writer(base), level, n=5, p=4, pols=("HH", "HV"), image_kw=nonmonotonic(5))
        ceos_alos2.open_alos2(base, backend_options={"use_cache": False, "create_cache": True, "records_per_chunk": 2})
        docs = {}
        for f in glob.glob(os.path.join(cpath.cache_root, "*", "*.index")):
            docs[f] = open(f).read()
        if len(docs) != len(datas):
            return {"reproduced": True, "error": f"create_cache=True wrote {len(docs)} index files for {len(datas)} images"}
        for f, doc in docs.items():
            raw = doc.encode()
            cut = min(int(len(raw) * k_frac), len(raw) - 1)
            if midchar:
                # cut inside a multi-byte character if the document has one (byte-level crash point)
                multi = [i for i, b in enumerate(raw) if b >= 0x80 and (b & 0xC0) == 0x80]
                if multi:
                    cut = multi[0]
            adj = os.path.join(base, os.path.basename(f))
            for where, state in ((f, local), (adj, remote)):
                if state == 0:
                    if os.path.exists(where):
                        os.remove(where)
                else:
                    with open(where, "wb") as fh:
                        fh.write(raw if state == 1 else raw[:cut])
        listing_before = sorted(os.listdir(base))
        try:
            got = ceos_alos2.open_alos2(base, backend_options={"use_cache": use_cache, "create_cache": create_cache, "records_per_chunk": rpc})
        except Exception as e:  # noqa: BLE001
            return {"reproduced": True, "error": f"open_alos2 raised {type(e).__name__}: {str(e)[:200]}"}
        plain = ceos_alos2.open_alos2(base, backend_options={"use_cache": False, "records_per_chunk": rpc})
        diffs = tree_diff(plain, got)
        for name, d in datas.items():
            pol = name.split("-")[1]
            if not np.array_equal(got[f"imagery/{pol}/data"].values, d):
                diffs.append(f"pixels of {pol} differ from the synthesised samples")
        if sorted(os.listdir(base)) != listing_before:
            diffs.append("the product directory was modified")
        # repair: when this call parsed the images with create_cache=True (no usable cache was served), a complete index of every
        # image now lies in the user cache directory
        if create_cache and not (use_cache and (local == 1 or (local == 0 and remote == 1))):
            import json

            for f, doc in docs.items():
                try:
                    json.loads(open(f).read())
                except Exception as e:  # noqa: BLE001
                    diffs.append(f"after a successful create_cache=True the local index {os.path.basename(f)} is still unusable ({type(e).__name__})")
        return {"reproduced": bool(diffs), "diffs": diffs[:6]}
    finally:
        shutil.rmtree(root, ignore_errors=True)


def history(level="1.5"):
    """a fixed multi-step history of opens / CLI cache creation / deletions; every open must equal a fresh uncached open"""
    import copy
    import glob
    import hashlib
    import pathlib

    import platformdirs

    import ceos_alos2
    from ceos_alos2.sar_image import cli
    from ceos_alos2.sar_image.caching import path as cpath
    from vlib import synth

    root = tempfile.mkdtemp(prefix="vhist_")
    os.environ["XDG_CACHE_HOME"] = os.path.join(root, "_xdg")
    cpath.cache_root = platformdirs.user_cache_path(cpath.project_name)
    try:
        base = os.path.join(root, "prod")
        datas = synth.product(synth.dir_writer(base), level, n=5, p=4, pols=("HH", "HV"), image_kw=nonmonotonic(5))

        def snapshot():
            return {f: hashlib.sha256(open(os.path.join(base, f), "rb").read()).hexdigest() for f in sorted(os.listdir(base))}

        snap0 = snapshot()
        steps = [("open", True, False, 2), ("open", True, True, 3), ("open", True, False, 7), ("cli", None, None, 4), ("open", True, False, 1),
                 ("del_local",), ("open", True, False, 5), ("del_adj",), ("open", False, True, 2), ("open", True, False, 6), ("open", False, False, 5)]
        for i, st in enumerate(steps):
            if st[0] == "open":
                opts = {"use_cache": st[1], "create_cache": st[2], "records_per_chunk": st[3], "storage_options": {}}
                keep = copy.deepcopy(opts)
                try:
                    got = ceos_alos2.open_alos2(base, backend_options=opts)
                except Exception as e:  # noqa: BLE001
                    return {"reproduced": True, "step": i, "op": st, "error": f"{type(e).__name__}: {str(e)[:200]}", "steps": i}
                if opts != keep:
                    return {"reproduced": True, "step": i, "op": st, "error": "backend_options mutated", "steps": i}
                plain = ceos_alos2.open_alos2(base, backend_options={"use_cache": False, "records_per_chunk": st[3]})
                diffs = tree_diff(plain, got)
                for pol in ("HH", "HV"):
                    if got[f"imagery/{pol}/data"].encoding != plain[f"imagery/{pol}/data"].encoding:
                        diffs.append("preferred chunks differ")
                if diffs:
                    return {"reproduced": True, "step": i, "op": st, "diffs": diffs[:5], "steps": i}
            elif st[0] == "cli":
                for name in datas:
                    cli.create_cache(pathlib.Path(base) / name, None, st[3])
            elif st[0] == "del_local":
                for f in glob.glob(os.path.join(cpath.cache_root, "*", "*.index")):
                    os.remove(f)
            elif st[0] == "del_adj":
                for f in glob.glob(os.path.join(base, "*.index")):
                    os.remove(f)
            now = {k: v for k, v in snapshot().items() if not k.endswith(".index")}
            if now != snap0:
                return {"reproduced": True, "step": i, "op": st, "error": "product directory modified", "steps": i}
            extra = [k for k in snapshot() if k.endswith(".index")]
            if extra and not any(s[0] == "cli" for s in steps[: i + 1]):
                return {"reproduced": True, "step": i, "op": st, "error": f"index files appeared in the product directory: {extra}", "steps": i}
        return {"reproduced": False, "steps": len(steps)}
    finally:
        shutil.rmtree(root, ignore_errors=True)


def typed_tree(level="1.5", pols=("HH",), scans=(None,)):
    """open a synthesised product and compare what every variable ADVERTISES (dtype, shape) with what loading gives; type discipline"""
    import ceos_alos2

    def plain(v):
        if v is None or isinstance(v, (bool, int, float, complex, str, np.generic)):
            return True
        if isinstance(v, (list, tuple)):
            return all(plain(e) for e in v)
        if isinstance(v, np.ndarray):
            return v.dtype.kind in "biufcMmU"
        return False

    def run(root, datas):
        bad = []
        tree = ceos_alos2.open_alos2(root, backend_options={"use_cache": False, "records_per_chunk": 2})
        try:
            repr(tree)
        except Exception as e:  # noqa: BLE001
            bad.append(f"repr(tree) raised {type(e).__name__}: {str(e)[:80]}")
        for node in tree.subtree:
            ds = node.to_dataset()
            try:
                ds.nbytes
            except Exception as e:  # noqa: BLE001
                bad.append(f"{node.path}: nbytes raised {type(e).__name__}: {str(e)[:80]}")
            for k, v in ds.attrs.items():
                if not plain(v):
                    bad.append(f"{node.path}@{k}: attribute of type {type(v).__name__}")
            for name, var in ds.variables.items():
                declared_dtype, declared_shape = var.dtype, var.shape
                if not isinstance(declared_dtype, np.dtype):
                    bad.append(f"{node.path}/{name}: declared dtype {declared_dtype!r} is not a numpy dtype")
                    continue
                vals = np.asarray(var.values)
                if vals.dtype.newbyteorder("=") != np.dtype(declared_dtype).newbyteorder("=") or vals.shape != tuple(declared_shape):
                    bad.append(f"{node.path}/{name}: declared {declared_dtype}{declared_shape}, loaded {vals.dtype}{vals.shape}")
                if vals.dtype.kind not in "biufcMmU":
                    bad.append(f"{node.path}/{name}: dtype kind {vals.dtype.kind!r} ({str(vals.flat[0])[:40] if vals.size else ''})")
                for k, v in var.attrs.items():
                    if not plain(v):
                        bad.append(f"{node.path}/{name}@{k}: attribute of type {type(v).__name__}")
        return {"reproduced": bool(bad), "detail": bad[:6]}

    return with_product(run, level=level, n=3, p=2, pols=pols, scans=scans)


def indexing_kinds(level="1.5", rpc=2, n=5, m=4):
    """every kind of indexing xarray accepts on the lazy image vs the same operation on the loaded image (shape, dims, coords, values, dtype)"""
    import xarray as xr

    import ceos_alos2

    def run(root, datas):
        tree = ceos_alos2.open_alos2(root, backend_options={"use_cache": False, "records_per_chunk": rpc})
        lazy = tree["imagery/HH"].to_dataset()["data"]
        full = lazy.load().copy() if False else tree["imagery/HH"].to_dataset()["data"].copy(deep=True).load()
        pts = xr.DataArray([0, n - 1, 2], dims="points")
        ptc = xr.DataArray([m - 1, 0, 1], dims="points")
        keys = [
            dict(rows=[0, 2], columns=[1, 3]), dict(rows=[n - 1, 0], columns=slice(None)), dict(rows=slice(None, None, -1), columns=slice(None, None, -2)),
            dict(rows=np.array([True, False] * (n // 2) + [True] * (n % 2)), columns=np.array([False, True] * (m // 2) + [True] * (m % 2))),
            dict(rows=pts, columns=ptc), dict(rows=pts), dict(columns=ptc), dict(rows=-1, columns=slice(1, 2)), dict(rows=slice(2, 2), columns=slice(1, 3)),
            dict(rows=slice(3, 1), columns=0), dict(rows=[1, 1, 1], columns=-1), dict(rows=slice(4, 0, -2)), dict(rows=2, columns=[0]), dict(rows=xr.DataArray([[0, 1], [2, 3]], dims=("a", "b"))),
            dict(rows=1, columns=2), dict(rows=-1, columns=-1), dict(rows=0, columns=0),  # scalar on both axes: 0-d result
        ]
        bad = []
        for key in keys:
            try:
                want = full.isel(**key)
            except Exception:  # noqa: BLE001
                continue
            try:
                got = lazy.isel(**key)
                gv = got.values
            except Exception as e:  # noqa: BLE001
                bad.append(f"isel({_short(key)}) raised {type(e).__name__}: {str(e)[:80]}")
                continue
            if got.dims != want.dims or got.shape != want.shape or gv.shape != want.values.shape:
                bad.append(f"isel({_short(key)}): declared {got.dims}{got.shape}, loaded {gv.shape}, expected {want.dims}{want.shape}")
            elif not np.array_equal(gv, want.values) or gv.dtype.newbyteorder("=") != want.values.dtype.newbyteorder("="):
                bad.append(f"isel({_short(key)}): values/dtype differ")
            elif set(got.coords) != set(want.coords) or any(not np.array_equal(got.coords[c].values, want.coords[c].values) for c in want.coords):
                bad.append(f"isel({_short(key)}): coordinates differ")
        name, d = next(iter(datas.items()))
        if not np.array_equal(full.values, d):
            bad.append("fully loaded image differs from the synthesised samples")
        return {"reproduced": bool(bad), "detail": bad[:6], "keys": len(keys)}

    return with_product(run, level=level, n=n, p=m, pols=("HH",))


def _short(key):
    return ", ".join(f"{k}={(v.values.tolist() if hasattr(v, 'values') else v)!r}" for k, v in key.items())[:100]


def assembly(level="1.5", pols=("HH", "HV"), scans=(None,), with_mp=True, use_cache_cycle=False, pid=None):
    """tree assembly of a synthesised product: children, one group per image in summary order with its own pixels, record groups, root attrs, coordinates"""
    import ceos_alos2
    from ceos_alos2.sar_leader.io import parse_data as parse_leader
    from ceos_alos2.volume_directory.io import open_volume_directory

    def run(root, datas):
        bad = []
        opts = {"use_cache": False, "records_per_chunk": 2}
        if use_cache_cycle:
            ceos_alos2.open_alos2(root, backend_options={"use_cache": True, "create_cache": True, "records_per_chunk": 3})
            opts = {"use_cache": True, "records_per_chunk": 2}
        tree = ceos_alos2.open_alos2(root, backend_options=opts)
        if sorted(tree.children) != ["imagery", "metadata", "summary"]:
            bad.append(f"children {list(tree.children)}")
        want_names = []
        for name in datas:
            parts = name.split("-")
            pol = parts[1]
            scan = parts[-1] if len(parts) == 6 else None
            want_names.append(pol + (f"_scan{scan[1]}" if scan else ""))
        got_names = list(tree["imagery"].children)
        if got_names != want_names:
            bad.append(f"imagery groups {got_names}, expected {want_names}")
        for gname, (fname, d) in zip(want_names, datas.items()):
            if gname not in tree["imagery"].children:
                continue
            node = tree[f"imagery/{gname}"]
            if not np.array_equal(node["data"].values, d):
                bad.append(f"imagery/{gname} does not hold the pixels of {fname}")
            ds = node.to_dataset()
            if "coordinates" in ds.attrs:
                bad.append(f"imagery/{gname}: bookkeeping attribute 'coordinates' left")
            if not {"rows", "sensor_acquisition_date"} <= set(ds.coords):
                bad.append(f"imagery/{gname}: per-line variables are not coordinates: {sorted(ds.coords)[:4]}")
        led = parse_leader(open(os.path.join(root, [f for f in os.listdir(root) if f.startswith("LED-")][0]), "rb").read())
        want_md = [k if k != "facility_related_data_5" else "transformations" for k, v in led.items()
                   if v and k != "file_descriptor" and not (k.startswith("facility_related_data_") and k[-1] in "1234")]
        if list(tree["metadata"].children) != want_md:
            bad.append(f"metadata groups {list(tree['metadata'].children)}, expected {want_md}")
        for sub in ("attitude", "rates"):
            ds = tree[f"metadata/attitude/{sub}"].to_dataset()
            if "time" not in ds.coords or "coordinates" in ds.attrs:
                bad.append(f"metadata/attitude/{sub}: time is not a coordinate")
        import fsspec

        vol = open_volume_directory(fsspec.get_mapper(root), [f for f in os.listdir(root) if f.startswith("VOL-")][0])
        want_attrs = dict(vol.attrs, reference_document="https://www.eorc.jaxa.jp/ALOS-2/en/doc/fdata/PALSAR-2_xx_Format_CEOS_E_f.pdf")
        if dict(tree.attrs) != want_attrs:
            bad.append(f"root attributes differ: {sorted(set(tree.attrs) ^ set(want_attrs))}")
        return {"reproduced": bool(bad), "detail": bad[:6]}

    return with_product(run, level=level, n=3, p=2, pols=pols, scans=scans, leader_kw={"with_mp": with_mp}, pid=pid)


# ------------------------------------------------------------------------------------------------ further witness replays


def _special_samples(level, n, p, rng):
    if level == "1.1":
        words = rng.integers(0, 2**32, size=(n, p, 2), dtype=np.uint64).astype(np.uint32)
        special = [0x7FC00000, 0x7F800000, 0xFF800000, 0x80000000, 0x00000000, 0x7FC00001, 0x00000001, 0x7F7FFFFF, 0xFFC12345]
        flat = words.reshape(-1)
        for i, w in enumerate(special * 2):
            flat[(i * 3) % flat.size] = w
        return flat.reshape(n, p, 2).view("<f4").reshape(n, p, 2).copy().view("<c8").reshape(n, p)
    d = rng.integers(0, 65536, size=(n, p)).astype("uint16")
    flat = d.reshape(-1)
    for i, w in enumerate([0, 65535, 32768, 32767, 1, 256, 255]):
        flat[(i * 2) % flat.size] = w
    return d


def _bits(a):
    a = np.ascontiguousarray(a)
    if a.dtype.kind == "c":
        return a.astype("<c8").view("<u4")
    return a.astype("<u2").view("<u2")


def _register_rawio():
    import io

    import fsspec
    from fsspec.implementations.memory import MemoryFileSystem

    class RawIOFileSystem(MemoryFileSystem):
        protocol = "rawio"
        store = {}
        pseudo_dirs = [""]

        @classmethod
        def _strip_protocol(cls, path):
            if isinstance(path, str) and path.startswith("rawio://"):
                path = "memory://" + path[len("rawio://"):]
            return super()._strip_protocol(path)

        def _open(self, path, mode="rb", **kw):
            if mode != "rb":
                return super()._open(path, mode=mode, **kw)
            path = self._strip_protocol(path)
            if path not in self.store:
                raise FileNotFoundError(path)
            return io.BytesIO(self.store[path].getvalue())

    if "rawio" not in fsspec.registry:
        fsspec.register_implementation("rawio", RawIOFileSystem, clobber=True)


def pixels(level="1.5", n=5, p=3, rpc=2, protocol="file", seed=0):
    """bit-exact comparison of the loaded image with the samples written into the file (incl. NaN payloads, inf, -0.0, 0, 65535)"""
    import fsspec

    import ceos_alos2
    from vlib import synth

    rng = np.random.default_rng(seed)
    name = f"IMG-HH-{synth.SCENE}-{synth.PID[level]}"
    data = _special_samples(level, n, p, rng)
    root = tempfile.mkdtemp(prefix="vpix_")
    os.environ["XDG_CACHE_HOME"] = os.path.join(root, "_xdg")
    try:
        if protocol == "rawio":
            # a custom filesystem whose binary files are plain io.BytesIO objects (no fsspec extras such as `.size`), bucket-style root
            _register_rawio()
            fs = fsspec.filesystem("rawio")
            base = f"/vpix_{os.path.basename(root)}"
            synth.product(lambda nm, b: fs.pipe_file(f"{base}/{nm}", b), level, n=n, p=p, pols=("HH",), datas={name: data}, image_kw=nonmonotonic(n))
            url = f"rawio://{base}"
        elif protocol == "memory":
            fs = fsspec.filesystem("memory")
            base = f"/vpix_{os.path.basename(root)}"
            synth.product(lambda nm, b: fs.pipe_file(f"{base}/{nm}", b), level, n=n, p=p, pols=("HH",), datas={name: data}, image_kw=nonmonotonic(n))
            url = f"memory://{base}"
        else:
            base = os.path.join(root, "prod")
            synth.product(synth.dir_writer(base), level, n=n, p=p, pols=("HH",), datas={name: data}, image_kw=nonmonotonic(n))
            url = base if protocol == "file" else f"file://{base}"
        tree = ceos_alos2.open_alos2(url, backend_options={"use_cache": False, "records_per_chunk": rpc})
        var = tree["imagery/HH/data"]
        bad = []
        if tuple(var.shape) != (n, p):
            bad.append(f"declared shape {tuple(var.shape)} != header ({n}, {p})")
        vals = var.values
        if vals.shape != (n, p) or not np.array_equal(_bits(vals), _bits(data)):
            diff = np.argwhere(_bits(vals).reshape(n, p, -1) != _bits(data).reshape(n, p, -1))[:2].tolist() if vals.shape == (n, p) else "shape"
            bad.append(f"loaded samples differ bit-wise from the file at {diff}")
        return {"reproduced": bool(bad), "detail": bad, "level": level, "n": n, "p": p, "rpc": rpc, "protocol": protocol}
    except Exception as e:  # noqa: BLE001
        return {"reproduced": True, "detail": [f"{type(e).__name__}: {str(e)[:200]}"], "level": level, "n": n, "p": p, "rpc": rpc, "protocol": protocol}
    finally:
        shutil.rmtree(root, ignore_errors=True)
        if protocol == "memory":
            try:
                fs.rm(base, recursive=True)
            except Exception:  # noqa: BLE001
                pass


def rpc_pair(level="1.5", rpc1=1, rpc2=7, n=5, p=3, cached=False):
    """same product, two records_per_chunk: identical trees; preferred chunk size = min(rpc, lines); cached=True: served from an index"""
    import ceos_alos2

    def run(root, datas):
        if cached:
            ceos_alos2.open_alos2(root, backend_options={"use_cache": False, "create_cache": True, "records_per_chunk": 4})
        a = ceos_alos2.open_alos2(root, backend_options={"use_cache": cached, "records_per_chunk": rpc1})
        b = ceos_alos2.open_alos2(root, backend_options={"use_cache": cached, "records_per_chunk": rpc2})
        diffs = tree_diff(a, b)
        for t, rpc in ((a, rpc1), (b, rpc2)):
            for pol in ("HH", "HV"):
                enc = t[f"imagery/{pol}/data"].encoding
                if enc.get("preferred_chunksizes") != {"rows": min(rpc, n), "columns": p} and enc.get("preferred_chunks") != {"rows": min(rpc, n), "columns": p}:
                    diffs.append(f"rpc={rpc}: preferred chunk sizes {enc}")
        return {"reproduced": bool(diffs), "detail": diffs[:5], "rpc": (rpc1, rpc2)}

    return with_product(run, level=level, n=n, p=p)


_LOG = []


def _register_logfs():
    import fsspec
    from fsspec.implementations.local import LocalFileSystem

    class LoggedFile:
        def __init__(self, f, path):
            self.f, self.path = f, path

        def seek(self, o, whence=0):
            _LOG.append(("seek", os.path.basename(self.path), o))
            return self.f.seek(o, whence)

        def read(self, n=-1):
            pos = self.f.tell()
            out = self.f.read(n)
            _LOG.append(("read", os.path.basename(self.path), pos, n, len(out)))
            return out

        def __enter__(self):
            return self

        def __exit__(self, *a):
            self.f.close()
            return False

        def __getattr__(self, k):
            return getattr(self.f, k)

    class LogFS(LocalFileSystem):
        protocol = "logfs"

        def _open(self, path, mode="rb", **kw):
            _LOG.append(("open", os.path.basename(path)))
            return LoggedFile(super()._open(path, mode=mode, **kw), path)

        def cat_file(self, path, start=None, end=None, **kw):
            _LOG.append(("cat", os.path.basename(self._strip_protocol(path))))
            return super().cat_file(path, start=start, end=end, **kw)

        def cat(self, path, *a, **kw):
            _LOG.append(("cat", os.path.basename(self._strip_protocol(path)) if isinstance(path, str) else "many"))
            return super().cat(path, *a, **kw)

    fsspec.register_implementation("logfs", LogFS, clobber=True)


def io_log(level="1.5", n=7, p=3, rpc=3, rows=slice(2, 6)):
    """request log of an instrumented filesystem: open pass and one selection load"""
    import math

    import ceos_alos2

    _register_logfs()
    H = 544 if level == "1.1" else 192
    L = H + p * (8 if level == "1.1" else 2)

    def run(root, datas):
        name = next(iter(datas))
        bad = []
        del _LOG[:]
        tree = ceos_alos2.open_alos2("logfs://" + root, backend_options={"use_cache": False, "records_per_chunk": rpc})
        reads = [e for e in _LOG if e[0] == "read" and e[1] == name]
        if not reads or (reads[0][2], reads[0][3]) != (0, 720):
            bad.append(f"open: first request {reads[:1]} is not the 720-byte descriptor")
        if len(reads) - 1 > math.ceil(n / rpc):
            bad.append(f"open: {len(reads) - 1} requests after the descriptor, at most {math.ceil(n / rpc)} allowed")
        pos = 720
        for e in reads[1:]:
            if e[2] != pos:
                bad.append(f"open: request at {e[2]} does not continue at {pos}")
            pos = e[2] + e[4]
        if pos != 720 + n * L:
            bad.append(f"open: line records read up to {pos}, file has {720 + n * L}")
        del _LOG[:]
        tree["imagery/HH/data"].isel(rows=rows).values
        sel = list(range(n)[rows]) if isinstance(rows, slice) else list(rows)
        rp = min(rpc, n)
        groups = sorted({r // rp for r in sel})
        other = [e for e in _LOG if e[0] in ("open", "cat") and e[1] != name]
        if other:
            bad.append(f"load touched other files: {other[:3]}")
        reads = [e for e in _LOG if e[0] == "read"]
        if len(reads) > len(groups):
            bad.append(f"load: {len(reads)} reads for {len(groups)} touched groups")
        for e in reads:
            g = (e[2] - 720) // (rp * L)
            lo, hi = 720 + g * rp * L, 720 + min((g + 1) * rp, n) * L
            if g not in groups or e[2] < lo or e[2] + e[3] > hi or e[2] + e[3] > 720 + n * L:
                bad.append(f"load: read {e[2]}+{e[3]} is not confined to a touched group [{lo}, {hi})")
        return {"reproduced": bool(bad), "detail": bad[:5], "rpc": rpc, "rows": str(rows)}

    return with_product(run, level=level, n=n, p=p, pols=("HH", "HV"))


def same_instant(year=2020, doy=366, ms=86399999):
    """one instant written into every time-bearing field of a product"""
    import datetime

    import ceos_alos2

    base = datetime.datetime(year, 1, 1) + datetime.timedelta(days=doy - 1, milliseconds=ms)
    want = np.datetime64(base, "ns")

    def run(root, datas):
        tree = ceos_alos2.open_alos2(root, backend_options={"use_cache": False})
        got = {
            "image line (ms)": np.datetime64(tree["imagery/HH"]["sensor_acquisition_date"].values[0], "ns"),
            "platform position first point": np.datetime64(tree["metadata/platform_position"].attrs["datetime_of_first_point"], "ns"),
            "scene centre": np.datetime64(tree["metadata/dataset_summary"].attrs["scene_center_time"], "ns"),
            "attitude point": np.datetime64(tree["metadata/attitude/attitude"]["time"].values[0], "ns"),
        }
        bad = {k: str(v) for k, v in got.items() if v != want}
        shown = tree["summary/scene_specification"].attrs.get("date")
        if shown != base.date().isoformat():
            bad["scene id date in the summary"] = str(shown)
        return {"reproduced": bool(bad), "detail": bad, "instant": str(want)}

    line = {"sensor_acquisition_date": {"year": year, "day_of_year": doy, "milliseconds": ms}}
    ov = {"attitude": {"data_points": [{"time": {"day_of_year": doy, "millisecond_of_day": ms}}]},
          "platform_position": {"datetime_of_first_point": {"date": f"{base.year:4d}{base.month:4d}{base.day:4d}", "day_of_year": doy, "seconds_of_day": ms / 1000.0}},
          "dataset_summary": {"scene_center_time": base.strftime("%Y%m%d%H%M%S") + "%03d" % (ms % 1000)}}
    # the product is named after its acquisition day (scene id in the file names and the summary), as real products are
    scene = "ALOS2290760600-" + base.strftime("%y%m%d")
    try:
        return with_product(run, level="1.5", n=2, p=3, pols=("HH",), image_kw={"line": line}, leader_kw={"n_att": 1, "overrides": ov}, scene=scene)
    except Exception as e:  # noqa: BLE001 - a product acquired at this instant cannot be opened at all
        return {"reproduced": True, "detail": {"open_alos2": f"{type(e).__name__}: {str(e)[:160]}"}, "instant": str(want)}


def pinned_leader_times():
    """a leader written from the PINNED layout (independent of the live structs): the 17-character scene centre stamp and the
    platform-position first point read back as the instants written"""
    from ceos_alos2.sar_leader.io import open_sar_leader
    from vlib import layoutspec as LS
    from vlib import specwriter as W

    spec = LS.load()
    raw = bytearray(W.write("sar_leader", spec, record_lengths=True)[0])
    params = W.PARAMS["sar_leader"]

    def put(path, text):
        for e in spec["sar_leader"]["leaves"]:
            if e["path"] == list(path):
                off, w = W.lin(e["off"], params), W.lin(e["width"], params)
                assert len(text) <= w, (path, text, w)
                raw[off:off + w] = text.ljust(w).encode() if e["kind"][-1][0] == "PaddedString" else text.rjust(w).encode()
                return
        raise KeyError(path)

    bad = {}
    for stamp, want_sc, secs, want_pp in (("20200229235959999", "2020-02-29T23:59:59.999000", "86399.999", "2020-02-29T23:59:59.999000"),
                                          ("20201231000000001", "2020-12-31T00:00:00.001000", "0.001", "2020-12-31T00:00:00.001000")):
        put(["dataset_summary", "scene_center_time"], stamp)
        put(["platform_position", "datetime_of_first_point", "date"], f"{int(stamp[:4]):4d}{int(stamp[4:6]):4d}{int(stamp[6:8]):4d}")
        put(["platform_position", "datetime_of_first_point", "seconds_of_day"], secs)
        try:
            g = open_sar_leader({"LED": bytes(raw)}, "LED")
            got_sc = g["dataset_summary"].attrs.get("scene_center_time")
            got_pp = g["platform_position"].attrs.get("datetime_of_first_point")
        except Exception as e:  # noqa: BLE001
            bad[stamp] = f"open_sar_leader raised {type(e).__name__}: {str(e)[:120]}"
            continue
        if got_sc != want_sc:
            bad[stamp + " scene centre"] = str(got_sc)
        if got_pp != want_pp:
            bad[stamp + " platform position first point"] = str(got_pp)
    return {"reproduced": bool(bad), "detail": bad}


def line_stamps(us=(86399999999, 1, 43200123456)):
    """level 1.1: the per-line millisecond and microsecond stamps come out with every stored digit (no unit/dtype change drops sub-ms digits)"""
    import datetime

    import ceos_alos2

    day = datetime.datetime(2020, 2, 29)
    want_us = [np.datetime64(day + datetime.timedelta(microseconds=u), "ns") for u in us]
    want_ms = [np.datetime64(day + datetime.timedelta(milliseconds=u // 1000), "ns") for u in us]

    def run(root, datas):
        tree = ceos_alos2.open_alos2(root, backend_options={"use_cache": False})
        ds = tree["imagery/HH"]
        bad = {}
        for name, want in (("sensor_acquisition_date_microseconds", want_us), ("sensor_acquisition_date", want_ms)):
            v = ds[name].values
            got = [np.datetime64(x, "ns") for x in v]
            if got != want or not np.issubdtype(v.dtype, np.datetime64):
                bad[name] = {"got": [str(x) for x in got], "written": [str(x) for x in want], "dtype": str(v.dtype)}
        return {"reproduced": bool(bad), "detail": bad}

    def line(i):
        return {"sensor_acquisition_date": {"year": 2020, "day_of_year": 60, "milliseconds": us[i] // 1000}, "sensor_acquisition_date_microseconds": us[i]}

    return with_product(run, level="1.1", n=len(us), p=2, pols=("HH",), image_kw={"line": line})


def fail_stop(level="1.5", n=4, p=3):
    """every truncation of the image at record boundaries and +-1 byte, truncated leader / volume directory, every single missing file"""
    import ceos_alos2

    H = 544 if level == "1.1" else 192
    L = H + p * (8 if level == "1.1" else 2)
    out = []

    def attempt(root, what, rpc):
        try:
            tree = ceos_alos2.open_alos2(root, backend_options={"use_cache": False, "records_per_chunk": rpc})
            shape = tuple(tree["imagery/HH/data"].shape)
            return f"{what} (rpc={rpc}): opened, image shape {shape}"
        except OSError:
            return None
        except Exception as e:  # noqa: BLE001
            return None if "missing" not in what else f"{what}: raised {type(e).__name__}, not an OSError"

    def run(root, datas):
        name = next(iter(datas))
        files = sorted(os.listdir(root))
        orig = {f: open(os.path.join(root, f), "rb").read() for f in files}
        cuts = sorted({c for k in range(n + 1) for c in (720 + k * L - 1, 720 + k * L, 720 + k * L + 1)} | {0, 1, 719, 720 + L // 2}) 
        for cut in cuts:
            if cut < 0 or cut >= len(orig[name]):
                continue
            open(os.path.join(root, name), "wb").write(orig[name][:cut])
            for rpc in (1, n - 1, n, n + 3):
                r = attempt(root, f"image cut at {cut}", rpc)
                if r:
                    out.append(r)
        open(os.path.join(root, name), "wb").write(orig[name])
        for f in files:
            if f.startswith(("LED-", "VOL-")):
                for cut in (0, 1, 359, 360, 720, len(orig[f]) // 2, len(orig[f]) - 1):
                    open(os.path.join(root, f), "wb").write(orig[f][:cut])
                    r = attempt(root, f"{f[:3]} cut at {cut}", 2)
                    if r:
                        out.append(r)
                open(os.path.join(root, f), "wb").write(orig[f])
        for f in files:
            if f.startswith("TRL-"):
                continue
            os.remove(os.path.join(root, f))
            r = attempt(root, f"missing {f[:7]}", 2)
            if r:
                out.append(r)
            open(os.path.join(root, f), "wb").write(orig[f])
        return {"reproduced": bool(out), "detail": out[:6]}

    return with_product(run, level=level, n=n, p=p, pols=("HH",))


def framing(n_att=3, n_ch=2, with_mp=True, fac_len=(100, 120, 140, 160), att_len=16384):
    """records behind variable-length / optional records are decoded from their own bytes"""
    from ceos_alos2.sar_leader.io import parse_data
    from vlib import synth

    try:
        raw = synth.leader(n_att=n_att, n_ch=n_ch, with_mp=with_mp, fac_len=fac_len, att_len=att_len)
        d = parse_data(raw)
    except Exception as e:  # noqa: BLE001
        return {"reproduced": True, "detail": [f"{type(e).__name__}: {str(e)[:150]}"], "params": (n_att, n_ch, with_mp, fac_len, att_len)}
    bad = []
    seqs = {"dataset_summary": 2, "platform_position": 4, "attitude": 5, "radiometric_data": 6, "data_quality_summary": 7, "facility_related_data_1": 8,
            "facility_related_data_2": 9, "facility_related_data_3": 10, "facility_related_data_4": 11, "facility_related_data_5": 12}
    for rec, seq in seqs.items():
        if d[rec]["preamble"]["record_sequence_number"] != seq:
            bad.append(f"{rec}: preamble sequence number {d[rec]['preamble']['record_sequence_number']} (its own is {seq})")
    if d["radiometric_data"]["calibration_factor"][0] != -83.0:
        bad.append(f"calibration factor {d['radiometric_data']['calibration_factor']}")
    if len(d["attitude"]["data_points"]) != n_att or len(d["map_projection"]) != (1 if with_mp else 0):
        bad.append("record multiplicities")
    if d["data_quality_summary"]["number_of_channels"] != n_ch:
        bad.append("channel count")
    for i, L in enumerate(fac_len):
        if d[f"facility_related_data_{i + 1}"]["preamble"]["record_length"] != L:
            bad.append(f"facility {i + 1} length")
    return {"reproduced": bool(bad), "detail": bad[:4], "params": (n_att, n_ch, with_mp, fac_len, att_len)}


def stale_cache(level="1.5"):
    """an index written for an image that is then replaced under the same name: use_cache=False must read the new file"""
    import ceos_alos2
    from vlib import synth

    def run(root, datas):
        ceos_alos2.open_alos2(root, backend_options={"use_cache": False, "create_cache": True, "records_per_chunk": 2})
        name, old = next(iter(datas.items()))
        rng = np.random.default_rng(7)
        new = (rng.integers(0, 65536, size=(old.shape[0] + 2, old.shape[1])).astype("uint16") if level != "1.1"
               else (rng.normal(size=(old.shape[0] + 2, old.shape[1])) + 1j * rng.normal(size=(old.shape[0] + 2, old.shape[1]))).astype("complex64"))
        open(os.path.join(root, name), "wb").write(synth.image_file(level, new))
        tree = ceos_alos2.open_alos2(root, backend_options={"use_cache": False, "records_per_chunk": 3})
        pol = name.split("-")[1]
        var = tree[f"imagery/{pol}/data"]
        bad = []
        if tuple(var.shape) != new.shape or not np.array_equal(_bits(var.values), _bits(new)):
            bad.append(f"use_cache=False returned shape {tuple(var.shape)} for a replaced image of shape {new.shape} (stale index consulted?)")
        # regenerate the index for the new delivery, then open by default (through the index): the new file's samples
        ceos_alos2.open_alos2(root, backend_options={"use_cache": False, "create_cache": True, "records_per_chunk": 5})
        tree = ceos_alos2.open_alos2(root)
        var = tree[f"imagery/{pol}/data"]
        if tuple(var.shape) != new.shape or not np.array_equal(_bits(var.values), _bits(new)):
            bad.append(f"after regenerating the cache (use_cache=False, create_cache=True) a default open returned shape {tuple(var.shape)}, the file has {new.shape}")
        return {"reproduced": bool(bad), "detail": bad}

    return with_product(run, level=level, n=4, p=3, pols=("HH",))
