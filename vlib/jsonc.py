"""JSON contract stub (library boundary `json`) used by the cache harnesses.

Contract (validated against the real `json` module by `conformance()` on every run):
* `dumps(x)` succeeds iff x is a JSON value tree (dict with str/int/float/bool/None keys, list, tuple, str, int, float, bool,
  None), else raises TypeError; the document denotes that tree with tuples turned into lists and non-str keys into str;
* `loads(dumps(x), object_hook=h)` rebuilds the tree bottom-up and applies `h` to every dict;
* a *strict prefix* of an object document is not a JSON document: `loads` raises JSONDecodeError (prefix lemma - checked on every
  prefix of a real encoded index document in `conformance()`).

The document is kept structural (`Doc`) so that symbolic leaves are not realised; a text on disk is `Text(doc, k)`: the first k
characters of the document, complete iff k >= doc.length (k and the length may be symbolic ints).
"""
import json as _json

JSONDecodeError = _json.JSONDecodeError


def has_non_ascii(t):
    if isinstance(t, str):
        return not t.isascii()
    if isinstance(t, dict):
        return any(has_non_ascii(k) or has_non_ascii(v) for k, v in t.items())
    if isinstance(t, list):
        return any(has_non_ascii(v) for v in t)
    return False


class Doc:
    def __init__(self, tree, length, ascii_only=True):
        # ascii_only: the document text consists of ASCII characters only (json.dumps default ensure_ascii=True escapes the rest);
        # otherwise a prefix of the BYTES on disk can end inside a multi-byte character
        self.tree, self.length, self.ascii_only = tree, length, ascii_only


class Text:
    """text of a (possibly torn) index file; also stands for the bytes object a mapper returns (`.decode()`)"""

    def __init__(self, doc, k, midchar=False):
        # midchar: the cut falls inside a multi-byte character (only possible when the document is not pure ASCII)
        self.doc, self.k, self.midchar = doc, k, midchar

    def decode(self, *a, **kw):
        """bytes -> str (also what Path.read_text does): a prefix ending inside a multi-byte character cannot be decoded"""
        if self.midchar and not self.doc.ascii_only and not self.complete():
            raise UnicodeDecodeError("utf-8", b"", 0, 1, "unexpected end of data")
        return self

    def complete(self):
        return self.k >= self.doc.length


def _key(k):
    if isinstance(k, str):
        return k
    if k is True:
        return "true"
    if k is False:
        return "false"
    if k is None:
        return "null"
    if isinstance(k, (int, float)):
        return repr(k) if isinstance(k, float) else str(int(k))
    raise TypeError(f"keys must be str, int, float, bool or None, not {type(k).__name__}")


def to_tree(x):
    if x is None or isinstance(x, (str, bool, int, float)):
        return x
    if isinstance(x, dict):
        return {_key(k): to_tree(v) for k, v in x.items()}
    if isinstance(x, (list, tuple)):
        return [to_tree(v) for v in x]
    raise TypeError(f"Object of type {type(x).__name__} is not JSON serializable")


def from_tree(t, hook):
    if isinstance(t, dict):
        d = {k: from_tree(v, hook) for k, v in t.items()}
        return hook(d) if hook is not None else d
    if isinstance(t, list):
        return [from_tree(v, hook) for v in t]
    return t


class JsonStub:
    JSONDecodeError = JSONDecodeError

    def __init__(self, length=1000):
        self.length = length

    def dumps(self, obj, ensure_ascii=True, **kw):
        if kw:
            raise NotImplementedError(kw)
        tree = to_tree(obj)
        d = Doc(tree, self.length, ascii_only=bool(ensure_ascii) or not has_non_ascii(tree))
        return Text(d, d.length)

    def loads(self, text, object_hook=None, **kw):
        if kw:
            raise NotImplementedError(kw)
        if not isinstance(text, Text):
            return _json.loads(text, object_hook=object_hook)
        if not text.complete():
            raise JSONDecodeError("Unterminated document", "", 0)
        return from_tree(text.doc.tree, object_hook)


def conformance(samples, index_document=None):
    """differential test of the contract against the real json module; returns a summary, raises on a mismatch"""
    st = JsonStub()
    hook_calls = []

    def hook(d):
        hook_calls.append(1)
        return ("H", tuple(sorted(d))) if "__t__" in d else d

    n = 0
    for x in samples:
        try:
            real = _json.loads(_json.dumps(x), object_hook=hook)
            real_err = None
        except TypeError as e:
            real, real_err = None, type(e)
        try:
            mine = st.loads(st.dumps(x), object_hook=hook)
            mine_err = None
        except TypeError as e:
            mine, mine_err = None, type(e)
        if real_err is not mine_err or repr(real) != repr(mine):
            raise AssertionError(f"json contract mismatch on {x!r}: real={real!r}/{real_err} stub={mine!r}/{mine_err}")
        n += 1
    prefixes = 0
    if index_document is not None:
        _json.loads(index_document)
        for k in range(len(index_document)):
            try:
                _json.loads(index_document[:k])
            except JSONDecodeError:
                prefixes += 1
                continue
            raise AssertionError(f"prefix lemma fails: the first {k} characters of the index document parse as JSON")
    return {"json contract samples": n, "strict prefixes of a real index document rejected by json.loads": prefixes}
