"""Token plumbing: push distinguishable leaf values through the real metadata transformers and read off where they land.

BASE documents are produced by the REAL parsers from synthesised bytes (so they have exactly the shape, key order and python
types of `to_dict(parse(...))`).  Numeric leaves are then replaced by tokens: unique concrete ints when the pinned tree oracle is
(re)generated or compared, CrossHair symbolic ints inside the harnesses.  Output groups are flattened to `location -> value`.
"""
import datetime
import io


# ------------------------------------------------------------------------------------------------ BASE documents


def base_leader(n_att=2, n_ch=2, with_mp=True, designator="UTM-PROJECTION"):
    from ceos_alos2.sar_leader.io import parse_data
    from vlib import synth

    return parse_data(synth.leader(n_att=n_att, n_ch=n_ch, with_mp=with_mp, designator=designator))


def base_volume(n_fp=3):
    from ceos_alos2.volume_directory.io import parse_data
    from vlib import synth

    return parse_data(synth.volume(n_fp=n_fp))


def base_image(level="1.5", n=2, header=None):
    """-> (header dict, list of per-line dicts) exactly as sar_image.io.read_metadata returns them"""
    import numpy as np

    from ceos_alos2.sar_image.io import read_metadata
    from vlib import synth

    dt = np.dtype("uint16") if level != "1.1" else np.dtype("complex64")
    data = np.zeros((n, 3), dtype=dt)
    raw = synth.image_file(level, data, header=header)
    return read_metadata(io.BytesIO(raw), 2)


# ------------------------------------------------------------------------------------------------ leaves


def leaves(doc, keep=lambda path, value: True):
    """paths of numeric leaves (int / float, not bool) in document order; tuples (value, attrs) are entered at index '@0'"""
    out = []

    def walk(x, p):
        if isinstance(x, dict):
            for k, v in x.items():
                walk(v, p + (k,))
        elif isinstance(x, list):
            for i, v in enumerate(x):
                walk(v, p + (i,))
        elif isinstance(x, tuple) and len(x) == 2 and isinstance(x[1], dict):
            walk(x[0], p + ("@0",))
        elif isinstance(x, (int, float)) and not isinstance(x, bool):
            if keep(p, x):
                out.append(p)

    walk(doc, ())
    return out


def put(d, p, v):
    """functional update of a nested document at path p"""
    if not p:
        return v
    k = p[0]
    if k == "@0":
        return (put(d[0], p[1:], v), d[1])
    if isinstance(d, dict):
        n = dict(d)
        n[k] = put(d[k], p[1:], v)
        return n
    n = list(d)
    n[k] = put(d[k], p[1:], v)
    return n


def get(d, p):
    for k in p:
        d = d[0] if k == "@0" else d[k]
    return d


def with_tokens(doc, paths, values):
    for p, v in zip(paths, values):
        doc = put(doc, p, v)
    return doc


# ------------------------------------------------------------------------------------------------ flattening of output groups


def _flat_value(prefix, x, out):
    if isinstance(x, (list, tuple)):
        out.append((prefix + ("#len",), (type(x).__name__, len(x))))
        for i, e in enumerate(x):
            _flat_value(prefix + (i,), e, out)
    elif isinstance(x, dict):
        out.append((prefix + ("#keys",), tuple(x)))
        for k, e in x.items():
            _flat_value(prefix + ("{" + str(k) + "}",), e, out)
    else:
        out.append((prefix, x))


def flatten(group, gpath="", out=None):
    """Group -> list of (location, value).  Locations: (group path, kind, name, index...)"""
    from ceos_alos2.array import Array
    from ceos_alos2.hierarchy import Group

    out = [] if out is None else out
    out.append(((gpath, "members"), tuple(group.data)))
    out.append(((gpath, "attrnames"), tuple(group.attrs)))
    for k, v in group.attrs.items():
        _flat_value((gpath, "attr", k), v, out)
    for name, item in group.data.items():
        if isinstance(item, Group):
            flatten(item, gpath + "/" + name, out)
            continue
        out.append(((gpath, "dims", name), tuple(item.dims) if not isinstance(item.dims, str) else (item.dims,)))
        out.append(((gpath, "varattrnames", name), tuple(item.attrs)))
        for k, v in item.attrs.items():
            _flat_value((gpath, "varattr", name, k), v, out)
        data = item.data
        if isinstance(data, Array):
            out.append(((gpath, "var", name), "<backend array>"))
        elif hasattr(data, "dtype") and hasattr(data, "tolist"):
            out.append(((gpath, "dtype", name), str(data.dtype)))
            _flat_value((gpath, "var", name), data.astype("int64").tolist() if data.dtype.kind in "Mm" else data.tolist(), out)
        else:
            _flat_value((gpath, "var", name), data, out)
    return out


def jsonable(x):
    """pinned-oracle serialisation of constants"""
    if isinstance(x, tuple):
        return {"__tuple__": [jsonable(e) for e in x]}
    if isinstance(x, list):
        return [jsonable(e) for e in x]
    if isinstance(x, float):
        return {"__float__": repr(x)}
    if isinstance(x, complex):
        return {"__complex__": repr(x)}
    if isinstance(x, (datetime.datetime, datetime.date)):
        return {"__datetime__": x.isoformat()}
    if isinstance(x, bytes):
        return {"__bytes__": x.hex()}
    if isinstance(x, dict):
        return {"__dict__": [[jsonable(k), jsonable(v)] for k, v in x.items()]}
    return x


def loc_key(loc):
    return "|".join(str(e) for e in loc)


def path_key(p):
    return ".".join(str(e) for e in p)


TOKEN_BASE = 7_000_000


def trace(transform, doc, paths, _second_pass=False):
    """run `transform` on doc with unique concrete tokens -> (mapping location-key -> source path key | constant, consumed paths)"""
    values = [TOKEN_BASE + 13 * i for i in range(len(paths))]
    out = flatten(transform(with_tokens(doc, paths, values)))
    by_value = {v: p for v, p in zip(values, paths)}
    table = {}
    seen = set()
    for loc, val in out:
        if isinstance(val, int) and not isinstance(val, bool) and val in by_value:
            table[loc_key(loc)] = {"src": path_key(by_value[val])}
            seen.add(by_value[val])
        else:
            table[loc_key(loc)] = {"const": jsonable(val)}
    unused = [p for p in paths if p not in seen]
    if unused and not _second_pass:
        # second pass: leaves that do not reach the output by identity keep their BASE value (that is what the checks do), so that
        # constants derived from them (flags turned into bools, lookups) are pinned at the BASE value
        used = [p for p in paths if p in seen]
        table2, unused2 = trace(transform, doc, used, _second_pass=True)
        if unused2:
            raise AssertionError(f"token flow changed when ignored leaves kept their BASE value: {unused2[:3]}")
        return table2, unused
    return table, unused
