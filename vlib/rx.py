"""Engine R - python regular expressions (live re.Pattern objects) -> z3 regular expressions (Re sort).

Language-level questions (inclusion, equivalence, disjointness, fixed width) are InRe queries, unbounded in string length.
Named groups can be intersected with a table language (the keys a lookup accepts).  Optional items `( ... )?` can be
forced present/absent to enumerate the structural variants of a pattern.
"""
import re
import re._constants as sc
import re._parser as sp

import z3

SS = z3.StringSort()
RS = z3.ReSort(SS)


class Unsupported(Exception):
    pass


def any_char():
    return z3.AllChar(RS)


def union(parts):
    parts = list(parts)
    if not parts:
        return z3.Empty(RS)
    return parts[0] if len(parts) == 1 else z3.Union(*parts)


def concat(parts):
    parts = list(parts)
    if not parts:
        return z3.Re("")
    return parts[0] if len(parts) == 1 else z3.Concat(*parts)


def words(ws):
    return union(z3.Re(w) for w in ws)


_DIGITS = None


def digit_ranges(limit=0x2FFFF):
    """code point ranges matched by `\\d` in a str pattern without re.ASCII: Unicode decimal digits (str.isdecimal), computed from this
    interpreter's tables; z3's character sort ends at 0x2FFFF (no decimal digit lies beyond)"""
    global _DIGITS
    if _DIGITS is None:
        out, start = [], None
        for c in range(0x110000):
            d = chr(c).isdecimal()
            if d and start is None:
                start = c
            elif not d and start is not None:
                out.append((start, c - 1))
                start = None
        _DIGITS = out
    assert all(b <= limit for _, b in _DIGITS)
    return _DIGITS


_CATS = {}


def category_ranges(cat, limit=0x2FFFF):
    """code point ranges of a regex category for str patterns without re.ASCII, from this interpreter's Unicode tables (what `re`
    itself uses): \\d = str.isdecimal, \\s = str.isspace, \\w = str.isalnum or '_'; clipped to z3's character range"""
    if cat in (sc.CATEGORY_DIGIT, sc.CATEGORY_NOT_DIGIT):
        return digit_ranges(limit)
    key = "space" if cat in (sc.CATEGORY_SPACE, sc.CATEGORY_NOT_SPACE) else "word" if cat in (sc.CATEGORY_WORD, sc.CATEGORY_NOT_WORD) else None
    if key is None:
        raise Unsupported(f"category {cat}")
    if key not in _CATS:
        pred = (lambda ch: ch.isspace()) if key == "space" else (lambda ch: ch.isalnum() or ch == "_")
        out, start = [], None
        for c in range(limit + 2):
            d = c <= limit and pred(chr(c))
            if d and start is None:
                start = c
            elif not d and start is not None:
                out.append((start, c - 1))
                start = None
        _CATS[key] = out
    return _CATS[key]


_ASCII_CATS = {"digit": [(48, 57)], "space": [(9, 13), (32, 32)], "word": [(48, 57), (65, 90), (95, 95), (97, 122)]}


def _cat_ranges(cat, ascii_only):
    neg = cat in (sc.CATEGORY_NOT_DIGIT, sc.CATEGORY_NOT_SPACE, sc.CATEGORY_NOT_WORD)
    if ascii_only:
        key = {sc.CATEGORY_DIGIT: "digit", sc.CATEGORY_NOT_DIGIT: "digit", sc.CATEGORY_SPACE: "space", sc.CATEGORY_NOT_SPACE: "space",
               sc.CATEGORY_WORD: "word", sc.CATEGORY_NOT_WORD: "word"}.get(cat)
        if key is None:
            raise Unsupported(f"category {cat}")
        return _ASCII_CATS[key], neg
    return category_ranges(cat), neg


def _zchr(c):
    return z3.Unit(z3.CharFromBv(z3.BitVecVal(c, 18)))


def _zrange(a, b):
    if b < 0x80:
        return z3.Range(chr(a), chr(b))
    return z3.Range(_zchr(a), _zchr(b))


def cls_to_re(items, ascii_only=False):
    parts = []
    neg = False
    for op, av in items:
        if op is sc.NEGATE:
            neg = True
        elif op is sc.LITERAL:
            parts.append(z3.Re(chr(av)))
        elif op is sc.RANGE:
            parts.append(z3.Range(chr(av[0]), chr(av[1])))
        elif op is sc.CATEGORY:
            # `\\d` / `\\s` / `\\w` (and their complements) of a str pattern range over Unicode unless re.ASCII is set
            rs, cneg = _cat_ranges(av, ascii_only)
            if len(rs) > 100:
                raise Unsupported("Unicode \\w as a z3 regular expression (about 770 ranges: the string solver does not finish); the bounded matcher handles it")
            r_ = union(_zrange(a, b) for a, b in rs)
            parts.append(z3.Intersect(any_char(), z3.Complement(r_)) if cneg else r_)
        else:
            raise Unsupported(f"class item {op} {av}")
    r = union(parts)
    if neg:
        r = z3.Intersect(any_char(), z3.Complement(r))
    return r


_ANCHORS = {}


class Conv:
    def __init__(self, pattern: re.Pattern, group_filter=None, optional=None):
        """group_filter: name -> z3 regex the group's text must additionally belong to
        optional: list of 0/1 forcing the i-th `?` item (in pattern order) absent/present; None = as written"""
        self.pattern = pattern
        self.names = {v: k for k, v in pattern.groupindex.items()}
        self.group_filter = group_filter or {}
        self.optional = optional
        self.n_optional = 0
        self.groups = {}  # name -> regex of the group (after filtering)
        flags = pattern.flags
        if flags & (re.IGNORECASE | re.MULTILINE):
            raise Unsupported("flags")
        self.dotall = bool(flags & re.DOTALL)
        self.ascii_only = bool(flags & re.ASCII) or isinstance(pattern.pattern, bytes)
        tree = list(sp.parse(pattern.pattern, flags))
        # anchors are supported at the two ends of the pattern only
        self.at_begin = self.at_end = None
        if tree and tree[0][0] is sc.AT and tree[0][1] in (sc.AT_BEGINNING, sc.AT_BEGINNING_STRING):
            self.at_begin = True
            tree = tree[1:]
        if tree and tree[-1][0] is sc.AT and tree[-1][1] in (sc.AT_END, sc.AT_END_STRING):
            self.at_end = "$" if tree[-1][1] is sc.AT_END else "Z"
            tree = tree[:-1]
        self.re = self.seq(tree)
        _ANCHORS[self.re.get_id()] = (self.at_begin, self.at_end)

    def seq(self, tree):
        out = []
        for op, av in tree:
            if op is sc.LITERAL:
                out.append(z3.Re(chr(av)))
            elif op is sc.NOT_LITERAL:
                out.append(z3.Intersect(any_char(), z3.Complement(z3.Re(chr(av)))))
            elif op is sc.IN:
                out.append(cls_to_re(av, self.ascii_only))
            elif op is sc.ANY:
                out.append(any_char() if self.dotall else z3.Intersect(any_char(), z3.Complement(z3.Re("\n"))))
            elif op in (sc.MAX_REPEAT, sc.MIN_REPEAT):
                lo, hi, sub = av
                if lo == 0 and hi == 1:
                    k = self.n_optional
                    self.n_optional += 1
                    if self.optional is not None:
                        if self.optional[k]:
                            out.append(self.seq(sub))
                        else:
                            self._skip(sub)
                        continue
                r = self.seq(sub)
                if hi is sc.MAXREPEAT:
                    out.append(z3.Concat(z3.Loop(r, lo, lo), z3.Star(r)) if lo else z3.Star(r))
                else:
                    out.append(z3.Loop(r, lo, hi))
            elif op is sc.SUBPATTERN:
                gid, add, dele, sub = av
                r = self.seq(sub)
                name = self.names.get(gid)
                if name is not None:
                    if name in self.group_filter:
                        r = z3.Intersect(r, self.group_filter[name])
                    self.groups[name] = r
                out.append(r)
            elif op is sc.BRANCH:
                out.append(union(self.seq(a) for a in av[1]))
            else:
                raise Unsupported(f"regex op {op}")
        return concat(out)

    def _skip(self, tree):
        """count the optionals nested in a skipped item so indices stay aligned"""
        for op, av in tree:
            if op in (sc.MAX_REPEAT, sc.MIN_REPEAT):
                lo, hi, sub = av
                if lo == 0 and hi == 1:
                    self.n_optional += 1
                self._skip(sub)
            elif op is sc.SUBPATTERN:
                self._skip(av[3])
            elif op is sc.BRANCH:
                for a in av[1]:
                    self._skip(a)


def how_matched(func, pattern_name, probe=None):
    """which re method the real function applies to the named module-level pattern -> 'fullmatch'|'match'|'search'.
    Observed dynamically: the module global is replaced by a recording proxy while the function runs on a probe string (works
    through helper functions); falls back to reading the function's AST."""
    import ast
    import inspect
    import sys
    import textwrap

    mod = sys.modules[func.__module__]
    pat = getattr(mod, pattern_name, None)
    if pat is not None and probe is not None:
        used = []

        class Rec:
            def __getattr__(self, k):
                if k in ("fullmatch", "match", "search"):
                    used.append(k)
                return getattr(pat, k)

        setattr(mod, pattern_name, Rec())
        try:
            try:
                func(probe)
            except Exception:  # noqa: BLE001
                pass
        finally:
            setattr(mod, pattern_name, pat)
        if len(set(used)) == 1:
            return used[0]
    tree = ast.parse(textwrap.dedent(inspect.getsource(func)))
    found = []
    for node in ast.walk(tree):
        if isinstance(node, ast.Call) and isinstance(node.func, ast.Attribute) and isinstance(node.func.value, ast.Name) \
                and node.func.value.id == pattern_name:
            found.append(node.func.attr)
    if len(found) != 1 or found[0] not in ("fullmatch", "match", "search"):
        raise Unsupported(f"cannot tell how {pattern_name} is applied in {func.__name__}: {found}")
    return found[0]


def accept_language(r, how):
    """language of strings x for which pattern.<how>(x) is not None; honours a leading ^ / trailing $ or \\Z of the pattern
    (python's `$` also matches just before one trailing newline)"""
    star = z3.Full(RS)
    at_begin, at_end = _ANCHORS.get(r.get_id(), (None, None))
    if how == "fullmatch":
        return r
    tail = star if at_end is None else (z3.Union(z3.Re(""), z3.Re("\n")) if at_end == "$" else z3.Re(""))
    if how == "match" or at_begin:
        return z3.Concat(r, tail)
    return z3.Concat(star, r, tail)


def lookup_table(translation):
    """live key set accepted by `curry(lookup, mapping)`; None for pass-through translations"""
    args = getattr(translation, "args", None)
    if args and isinstance(args[0], dict):
        return args[0]
    return None


# ------------------------------------------------------------------------------------------------ bounded priority matcher (captures)


class BoundedMatcher:
    """Executes the parse tree of a compiled pattern over K symbolic characters at CONCRETE positions and yields the ways the
    pattern can match in Python's backtracking priority order (greedy: longest first, lazy: shortest first, alternations left to
    right) as (condition, end position, {group: (start, end)}).  re.fullmatch picks the first alternative whose condition holds and
    whose end equals the (symbolic) length n.  Strings longer than K are outside the claim."""

    def __init__(self, pattern, K, bits=21, prefix="c"):
        self.pattern, self.K, self.bits = pattern, K, bits
        self.c = [z3.BitVec(f"{prefix}{i}", bits) for i in range(K)]
        self.n = z3.Int(prefix + "_len")
        self.names = {v: k for k, v in pattern.groupindex.items()}
        flags = pattern.flags
        if flags & (re.IGNORECASE | re.MULTILINE | re.VERBOSE & 0):
            raise Unsupported("flags")
        self.dotall = bool(flags & re.DOTALL)
        self.ascii_only = bool(flags & re.ASCII) or isinstance(pattern.pattern, bytes)
        self.tree = list(sp.parse(pattern.pattern, flags))

    def lit(self, ch):
        return z3.BitVecVal(ch, self.bits)

    def cls(self, items, x):
        negate = False
        conds = []
        for op, av in items:
            if op is sc.NEGATE:
                negate = True
            elif op is sc.LITERAL:
                conds.append(x == self.lit(av))
            elif op is sc.RANGE:
                conds.append(z3.And(z3.UGE(x, self.lit(av[0])), z3.ULE(x, self.lit(av[1]))))
            elif op is sc.CATEGORY:
                rs, cneg = _cat_ranges(av, self.ascii_only)
                inside = z3.Or(*[z3.And(z3.UGE(x, self.lit(a)), z3.ULE(x, self.lit(b))) for a, b in rs])
                conds.append(z3.Not(inside) if cneg else inside)
            else:
                raise Unsupported(f"class item {op} {av}")
        r = z3.Or(*conds) if conds else z3.BoolVal(False)
        return z3.Not(r) if negate else r

    def one(self, op, av, pos):
        """condition for a single-character item at concrete position pos (the position must exist: pos < n)"""
        if pos >= self.K:
            return None
        x = self.c[pos]
        if op is sc.LITERAL:
            cond = x == self.lit(av)
        elif op is sc.NOT_LITERAL:
            cond = x != self.lit(av)
        elif op is sc.ANY:
            cond = z3.BoolVal(True) if self.dotall else x != self.lit(10)
        elif op is sc.IN:
            cond = self.cls(av, x)
        else:
            return False
        return z3.And(self.n > pos, cond)

    def seq(self, items, pos, caps, k):
        """continuation passing: call k(pos, caps) for every way `items` can match from pos, in priority order; yields results of k"""
        if not items:
            yield from k(pos, caps)
            return
        (op, av), rest = items[0], items[1:]
        if op in (sc.LITERAL, sc.NOT_LITERAL, sc.ANY, sc.IN):
            cond = self.one(op, av, pos)
            if cond is None:
                return
            for c2, end, cp in self.seq(rest, pos + 1, caps, k):
                yield z3.And(cond, c2), end, cp
        elif op is sc.SUBPATTERN:
            gid, add, dele, sub = av
            name = self.names.get(gid, gid)

            def after(p2, caps2, start=pos, name=name):
                c3 = dict(caps2)
                c3[name] = (start, p2)
                yield from self.seq(rest, p2, c3, k)

            yield from self.seq(list(sub), pos, caps, after)
        elif op is sc.BRANCH:
            for alt in av[1]:
                yield from self.seq(list(alt) + rest, pos, caps, k)
        elif op in (sc.MAX_REPEAT, sc.MIN_REPEAT):
            lo, hi, sub = av
            hi = self.K if hi is sc.MAXREPEAT else min(hi, self.K)
            sub = list(sub)

            def reps(count, p, caps2):
                """exactly `count` more repetitions then the rest"""
                if count == 0:
                    yield from self.seq(rest, p, caps2, k)
                    return
                yield from self.seq(sub, p, caps2, lambda p2, c2: reps(count - 1, p2, c2) if p2 > p else iter(()))

            counts = range(lo, hi + 1)
            if op is sc.MAX_REPEAT:
                counts = reversed(counts)
            for cnt in counts:
                if pos + cnt > self.K and all(o in (sc.LITERAL, sc.NOT_LITERAL, sc.ANY, sc.IN) for o, _ in sub):
                    continue
                yield from reps(cnt, pos, caps)
        elif op is sc.AT:
            if av in (sc.AT_BEGINNING, sc.AT_BEGINNING_STRING):
                if pos == 0:
                    yield from self.seq(rest, pos, caps, k)
            elif av is sc.AT_END_STRING:
                for c2, end, cp in self.seq(rest, pos, caps, k):
                    yield z3.And(self.n == pos, c2), end, cp
            elif av is sc.AT_END:
                for c2, end, cp in self.seq(rest, pos, caps, k):
                    at_end = z3.Or(self.n == pos, z3.And(self.n == pos + 1, self.c[pos] == self.lit(10))) if pos < self.K else self.n == pos
                    yield z3.And(at_end, c2), end, cp
            else:
                raise Unsupported(f"anchor {av}")
        else:
            raise Unsupported(f"regex op {op}")

    def fullmatch(self):
        """-> list of (condition, captures) in priority order; the match taken is the first whose condition holds"""
        out = []

        def done(pos, caps):
            yield z3.And(self.n == pos), pos, caps

        for cond, end, caps in self.seq(self.tree, 0, {}, done):
            out.append((z3.simplify(cond), caps))
        return out

    def domain(self):
        """characters are unicode code points; characters at and after the length are irrelevant"""
        return [self.n >= 0, self.n <= self.K] + [z3.ULE(x, self.lit(0x10FFFF)) for x in self.c]

    def model_string(self, model):
        n = model.eval(self.n, model_completion=True).as_long()
        return "".join(chr(model.eval(self.c[i], model_completion=True).as_long()) for i in range(n))
