"""Engine R - python regular expressions (live re.Pattern objects) -> z3 regular expressions (Re sort).

Language-level questions (inclusion, equivalence, disjointness, fixed width) are InRe queries, unbounded in string length.
Named groups can be intersected with a table language (the keys a lookup accepts).  Optional items `( ... )?` can be
forced present/absent to enumerate the structural variants of a pattern.
"""
import re
import re._constants as sc
import re._parser as sp

import z3

SS = z3.StringSort()
RS = z3.ReSort(SS)


class Unsupported(Exception):
    pass


def any_char():
    return z3.AllChar(RS)


def union(parts):
    parts = list(parts)
    if not parts:
        return z3.Empty(RS)
    return parts[0] if len(parts) == 1 else z3.Union(*parts)


def concat(parts):
    parts = list(parts)
    if not parts:
        return z3.Re("")
    return parts[0] if len(parts) == 1 else z3.Concat(*parts)


def words(ws):
    return union(z3.Re(w) for w in ws)


def cls_to_re(items):
    parts = []
    neg = False
    for op, av in items:
        if op is sc.NEGATE:
            neg = True
        elif op is sc.LITERAL:
            parts.append(z3.Re(chr(av)))
        elif op is sc.RANGE:
            parts.append(z3.Range(chr(av[0]), chr(av[1])))
        elif op is sc.CATEGORY and av is sc.CATEGORY_DIGIT:
            parts.append(z3.Range("0", "9"))  # ASCII digits only: callers feed ASCII file names (stated)
        else:
            raise Unsupported(f"class item {op} {av}")
    r = union(parts)
    if neg:
        r = z3.Intersect(any_char(), z3.Complement(r))
    return r


_ANCHORS = {}


class Conv:
    def __init__(self, pattern: re.Pattern, group_filter=None, optional=None):
        """group_filter: name -> z3 regex the group's text must additionally belong to
        optional: list of 0/1 forcing the i-th `?` item (in pattern order) absent/present; None = as written"""
        self.pattern = pattern
        self.names = {v: k for k, v in pattern.groupindex.items()}
        self.group_filter = group_filter or {}
        self.optional = optional
        self.n_optional = 0
        self.groups = {}  # name -> regex of the group (after filtering)
        flags = pattern.flags
        if flags & (re.IGNORECASE | re.MULTILINE):
            raise Unsupported("flags")
        self.dotall = bool(flags & re.DOTALL)
        tree = list(sp.parse(pattern.pattern, flags))
        # anchors are supported at the two ends of the pattern only
        self.at_begin = self.at_end = None
        if tree and tree[0][0] is sc.AT and tree[0][1] in (sc.AT_BEGINNING, sc.AT_BEGINNING_STRING):
            self.at_begin = True
            tree = tree[1:]
        if tree and tree[-1][0] is sc.AT and tree[-1][1] in (sc.AT_END, sc.AT_END_STRING):
            self.at_end = "$" if tree[-1][1] is sc.AT_END else "Z"
            tree = tree[:-1]
        self.re = self.seq(tree)
        _ANCHORS[self.re.get_id()] = (self.at_begin, self.at_end)

    def seq(self, tree):
        out = []
        for op, av in tree:
            if op is sc.LITERAL:
                out.append(z3.Re(chr(av)))
            elif op is sc.NOT_LITERAL:
                out.append(z3.Intersect(any_char(), z3.Complement(z3.Re(chr(av)))))
            elif op is sc.IN:
                out.append(cls_to_re(av))
            elif op is sc.ANY:
                out.append(any_char() if self.dotall else z3.Intersect(any_char(), z3.Complement(z3.Re("\n"))))
            elif op in (sc.MAX_REPEAT, sc.MIN_REPEAT):
                lo, hi, sub = av
                if lo == 0 and hi == 1:
                    k = self.n_optional
                    self.n_optional += 1
                    if self.optional is not None:
                        if self.optional[k]:
                            out.append(self.seq(sub))
                        else:
                            self._skip(sub)
                        continue
                r = self.seq(sub)
                if hi is sc.MAXREPEAT:
                    out.append(z3.Concat(z3.Loop(r, lo, lo), z3.Star(r)) if lo else z3.Star(r))
                else:
                    out.append(z3.Loop(r, lo, hi))
            elif op is sc.SUBPATTERN:
                gid, add, dele, sub = av
                r = self.seq(sub)
                name = self.names.get(gid)
                if name is not None:
                    if name in self.group_filter:
                        r = z3.Intersect(r, self.group_filter[name])
                    self.groups[name] = r
                out.append(r)
            elif op is sc.BRANCH:
                out.append(union(self.seq(a) for a in av[1]))
            else:
                raise Unsupported(f"regex op {op}")
        return concat(out)

    def _skip(self, tree):
        """count the optionals nested in a skipped item so indices stay aligned"""
        for op, av in tree:
            if op in (sc.MAX_REPEAT, sc.MIN_REPEAT):
                lo, hi, sub = av
                if lo == 0 and hi == 1:
                    self.n_optional += 1
                self._skip(sub)
            elif op is sc.SUBPATTERN:
                self._skip(av[3])
            elif op is sc.BRANCH:
                for a in av[1]:
                    self._skip(a)


def how_matched(func, pattern_name):
    """read from the AST of the real function which re method it applies to the named pattern -> 'fullmatch'|'match'|'search'"""
    import ast
    import inspect
    import textwrap

    tree = ast.parse(textwrap.dedent(inspect.getsource(func)))
    found = []
    for node in ast.walk(tree):
        if isinstance(node, ast.Call) and isinstance(node.func, ast.Attribute) and isinstance(node.func.value, ast.Name) \
                and node.func.value.id == pattern_name:
            found.append(node.func.attr)
    if len(found) != 1 or found[0] not in ("fullmatch", "match", "search"):
        raise Unsupported(f"cannot tell how {pattern_name} is applied in {func.__name__}: {found}")
    return found[0]


def accept_language(r, how):
    """language of strings x for which pattern.<how>(x) is not None; honours a leading ^ / trailing $ or \\Z of the pattern
    (python's `$` also matches just before one trailing newline)"""
    star = z3.Full(RS)
    at_begin, at_end = _ANCHORS.get(r.get_id(), (None, None))
    if how == "fullmatch":
        return r
    tail = star if at_end is None else (z3.Union(z3.Re(""), z3.Re("\n")) if at_end == "$" else z3.Re(""))
    if how == "match" or at_begin:
        return z3.Concat(r, tail)
    return z3.Concat(star, r, tail)


def lookup_table(translation):
    """live key set accepted by `curry(lookup, mapping)`; None for pass-through translations"""
    args = getattr(translation, "args", None)
    if args and isinstance(args[0], dict):
        return args[0]
    return None
