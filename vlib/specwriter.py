"""Probe files written from the PINNED layout (spec/layout.json), independently of the live construct objects.

Every pinned field gets a distinguishable content at its pinned byte position (format per pinned kind chain); structure-driving
fields (counts, record lengths) get the concrete structure parameters.  `roundtrip` parses the probe with the REAL parser and lists
the fields whose parsed value is not what was written at their pinned position.  Used (a) to replay layout counterexamples and
(b) as the concrete end-to-end composition check bytes -> parser -> transformers -> tree.
"""
import datetime
import struct

from vlib import layoutspec as LS

PARAMS = {
    "sar_leader": {"c": 1, "natt": 2, "Latt": 16 + 120 * 2 + 44, "nch": 2, "Lf1": 100, "Lf2": 120, "Lf3": 140, "Lf4": 166},
    "volume_directory": {"nfp": 2},
    "trailer_file_descriptor": {"nlr": 2},
    "signal_data_record": {"L": 544 + 16},
    "processed_data_record": {"L": 192 + 6},
    "image_file_descriptor": {},
}
TEXTS = {
    "scene_center_time": "20200229123456789", "date": "2020   2  29", "logical_volume_creation_datetime": "2020022912345678",
    "map_projection_designator": "UTM-PROJECTION",
}
SMALL = {"year": 2020, "day_of_year": 60, "milliseconds": 12345, "millisecond_of_day": 4321, "seconds_of_day": 3600}


def lin(e, params):
    return e["const"] + sum(k * params[v] for v, k in e["coeffs"].items())


def expand(spec_entry, params):
    """pinned leaves with generic array indices instantiated -> list of (path tuple, off, width, kind)"""
    out = []
    for e in spec_entry["leaves"]:
        idx = e.get("idx", [])
        if not idx:
            out.append((tuple(e["path"]), lin(e["off"], params), lin(e["width"], params), e["kind"]))
            continue
        ranges = [range(lin(cnt, params)) for _, cnt, _ in idx]

        def rec(k, binding):
            if k == len(idx):
                p = dict(params, **binding)
                path, stars = [], iter(binding.values())
                for comp in e["path"]:
                    path.append(str(next(stars)) if comp == "*" else comp)
                out.append((tuple(path), lin(e["off"], p), lin(e["width"], p), e["kind"]))
                return
            for i in ranges[k]:
                rec(k + 1, dict(binding, **{idx[k][0]: i}))

        rec(0, {})
    return out


def _content(path, width, kind, number, param_value):
    """bytes to write for one field and the value the parser must return for it (None = not compared)"""
    last = kind[-1][0] if kind else None
    names = [k[0] for k in kind]
    name = path[-1]
    if last == "fmt":
        fmt = kind[-1][1]
        size = struct.calcsize(fmt)
        if param_value is not None:
            v = param_value
        elif name in SMALL:
            v = SMALL[name]
        elif "Enum" in names:
            v = kind[names.index("Enum")][1][0][1]
        elif "Flag" in names:
            v = number % 2
        elif "DatetimeYdus" in names:
            v = number % 86400000000  # microseconds of a day
        elif fmt[-1].isupper():
            v = 2 ** (8 * size - 1) + number % (2 ** (8 * size - 2))  # unsigned field: top bit set (a signed reading would differ)
        else:
            v = -(number % (2 ** (8 * size - 2))) - 1  # signed field: negative (an unsigned reading would differ)
        want = v
        if "Enum" in names:
            want = kind[names.index("Enum")][1][0][0]  # the name the pinned table gives to the written code
        elif "Flag" in names:
            want = bool(v)
        elif "DatetimeYdus" in names:
            want = None
        elif "Factor" in names:
            want = v * float(kind[names.index("Factor")][1])
        return struct.pack(fmt, v), want
    if last == "AsciiInteger":
        if param_value is not None:
            v = param_value
        elif name in SMALL:
            v = SMALL[name]
        elif "Enum" in names:
            return str(kind[names.index("Enum")][1][0][1]).rjust(width).encode(), kind[names.index("Enum")][1][0][0]
        else:
            # every column of the field carries a digit: a column moved to / from a neighbouring field changes the value
            v = int((str(number) * (width // len(str(number)) + 1))[:width])
        return str(v).rjust(width).encode(), v
    if last == "AsciiFloat":
        if name in SMALL or width < 6:
            v = float(SMALL[name]) if name in SMALL else float(number % 10**min(max(width - 3, 1), 6)) + 0.5
            text = repr(v).rjust(width)
        else:  # every column carries a character of the number
            text = (("%d." % (number % 10**3)) + "5432198765" * (width // 10 + 1))[:width]
            v = float(text)
        if len(text) > width:
            v = float(number % 10**max(width - 2, 1))
            text = ("%d" % v).rjust(width)
        want = v
        if "Factor" in names:
            want = v * float(kind[names.index("Factor")][1])
        return text.encode(), want
    if last == "PaddedString":
        if "Enum" in names:
            return str(kind[names.index("Enum")][1][0][1]).ljust(width).encode(), kind[names.index("Enum")][1][0][0]
        if name in TEXTS:
            return TEXTS[name].ljust(width)[:width].encode(), TEXTS[name][:width].strip()
        # fill the whole field (no padding): a width moved between two neighbouring text fields must show
        text = ("f%d" % number + "abcdefghijklmnopqrstuvwxyz" * (width // 26 + 1))[:width]
        return text.encode(), text
    if last == "Bytes":
        return bytes(width), None
    raise ValueError(f"unknown pinned kind {kind}")


def write(name, spec=None, params=None, record_lengths=False):
    """record_lengths=True: every fixed-size record's preamble.record_length carries the record's pinned size (as in real products)
    instead of a probe value"""
    spec = spec or LS.load()
    params = dict(PARAMS[name] if params is None else params)
    entry = spec[name]
    pvals = {path: params[var] for path, var in entry.get("params", {}).items()}
    total = lin(entry["end"], params)
    if name == "trailer_file_descriptor":
        total = 720
    buf = bytearray(b" " * total)
    expected = {}
    for k, (path, off, width, kind) in enumerate(expand(entry, params)):
        if width <= 0:
            continue
        raw, want = _content(path, width, kind, 1000 + k, pvals.get(".".join(path)))
        if len(raw) != width:
            raise ValueError(f"{'.'.join(path)}: content {raw!r} does not fit the pinned width {width}")
        buf[off:off + width] = raw
        if want is not None:
            expected[path] = want
    if record_lengths:
        leaves = expand(entry, params)
        for path, off, width, kind in leaves:
            if path[-2:] == ("preamble", "record_length") and ".".join(path) not in pvals:
                ext = [(o, o + w) for p2, o, w, _ in leaves if p2[:len(path) - 2] == path[:-2]]
                size = max(b for _, b in ext) - min(a for a, _ in ext)
                buf[off:off + width] = size.to_bytes(width, "big")
                expected[path] = size
    return bytes(buf), expected


def parsed(name, raw):
    from ceos_alos2.utils import to_dict

    struct_, _, _ = LS.registry()[name]
    return to_dict(struct_.parse(raw))


def lookup(doc, path):
    d = doc
    for comp in path:
        if isinstance(d, tuple) and len(d) == 2 and isinstance(d[1], dict) and not isinstance(d, list):
            d = d[0]
        if isinstance(d, datetime.datetime):
            # a (year, day_of_year, milliseconds) struct decoded into one instant: read the components back
            d = {"year": d.year, "day_of_year": d.timetuple().tm_yday,
                 "milliseconds": ((d.hour * 60 + d.minute) * 60 + d.second) * 1000 + d.microsecond // 1000}[comp]
            continue
        if isinstance(d, complex):
            d = {"real": d.real, "imaginary": d.imag}[comp]
            continue
        d = d[int(comp)] if isinstance(d, list) else d[comp]
    if isinstance(d, tuple) and len(d) == 2 and isinstance(d[1], dict):
        d = d[0]
    return d


def roundtrip(name, spec=None, params=None):
    raw, expected = write(name, spec, params)
    doc = parsed(name, raw)
    bad = []
    for path, want in expected.items():
        try:
            got = lookup(doc, path)
        except (KeyError, IndexError, TypeError) as e:
            bad.append({"field": ".".join(path), "error": f"{type(e).__name__}"})
            continue
        same = (got == want) if not isinstance(want, float) else (abs(got - want) <= 1e-9 * max(1.0, abs(want)))
        if not same:
            bad.append({"field": ".".join(path), "written": want, "parsed": got})
    return bad


def end_to_end(family):
    """bytes written from the pinned LAYOUT -> real parser -> real transformers -> flattened tree, compared location by location with
    what the pinned TREE table says must arrive there.  -> list of mismatches"""
    import io

    from vlib import plumbspec as PS
    from vlib import tokens as T

    trees = PS.load()
    bad = []
    if family == "leader":
        from ceos_alos2.sar_leader.io import open_sar_leader

        raw, expected = write("sar_leader")
        group = open_sar_leader({"LED": raw}, "LED")
        table = trees["leader.utm"]["table"]
        flat = T.flatten(group)
    elif family == "volume":
        from ceos_alos2.volume_directory.io import open_volume_directory

        raw, expected = write("volume_directory", params={"nfp": 3})
        group = open_volume_directory({"VOL": raw}, "VOL")
        table = trees["volume.fp3"]["table"]
        flat = T.flatten(group)
        # text fields: pinned names -> written texts
        names = {"control_document_id": "superstructure_format_control_document_id", "control_document_revision_level": "superstructure_format_control_document_revision_level",
                 "record_format_revision_level": "superstructure_record_format_revision_level", "software_version": "software_release_and_revision_level",
                 "physical_volume_id": "physical_volume_id", "logical_volume_id": "logical_volume_id", "volume_set_id": "volume_set_id",
                 "creation_country": "logical_volume_generation_country", "creation_agency": "logical_volume_generating_agency",
                 "creation_facility": "logical_volume_generating_facility"}
        for out, src in names.items():
            if group.attrs.get(out) != expected.get(("volume_descriptor", src)):
                bad.append({"attr": out, "got": group.attrs.get(out), "written": expected.get(("volume_descriptor", src))})
        for out, src in (("product_id", "product_id"), ("product_creation", "location_and_datetime_of_product_creation"), ("scene_id", "scene_id"),
                         ("scene_location_id", "scene_location_id")):
            if group.attrs.get(out) != expected.get(("text_record", src)):
                bad.append({"attr": out, "got": group.attrs.get(out), "written": expected.get(("text_record", src))})
        if group.attrs.get("creation_datetime") != "2020-02-29T12:34:56.780000":
            bad.append({"attr": "creation_datetime", "got": group.attrs.get("creation_datetime")})
        return bad
    else:
        from ceos_alos2.hierarchy import Group
        from ceos_alos2.sar_image.io import read_metadata
        from ceos_alos2.sar_image.metadata import transform_metadata

        level = family.split(".")[1]
        rec = "signal_data_record" if level == "11" else "processed_data_record"
        H = 544 if level == "11" else 192
        bps = 8 if level == "11" else 2
        pixels, n = 2, 2
        L = H + pixels * bps
        fd_spec = LS.load()
        fd_raw, fd_expected = write("image_file_descriptor")
        # the descriptor's structure-driving fields
        fd = bytearray(fd_raw)

        def put(path, text):
            for e in fd_spec["image_file_descriptor"]["leaves"]:
                if e["path"] == list(path):
                    off, w = e["off"]["const"], e["width"]["const"]
                    fd[off:off + w] = str(text).rjust(w).encode()
                    return
            raise KeyError(path)

        put(["number_of_sar_data_records"], n)
        put(["sar_data_record_length"], L)
        put(["sar_related_data_in_the_record", "number_of_lines_per_dataset"], n)
        put(["sar_related_data_in_the_record", "number_of_data_groups_per_line"], pixels)
        put(["prefix_suffix_data_locators", "sar_data_format_type_code"], ("C*8" if level == "11" else "IU2").ljust(4))
        body = b""
        expected = {}
        for i in range(n):
            r, exp = write(rec, params={"L": L})
            r = bytearray(r)
            # record type code in the preamble tells the reader which struct to use
            r[5] = 10 if level == "11" else 11
            body += bytes(r)
            for path, v in exp.items():
                expected[("lines", str(i)) + path] = v
        header, lines = read_metadata(io.BytesIO(bytes(fd) + body), 5)
        group, am = transform_metadata(header, lines)
        group = Group("/", None, {"image": group}, attrs=dict(am))
        table = trees[f"image.{level}.n2"]["table"]
        flat = T.flatten(group)
        expected.update({("header",) + p: v for p, v in fd_expected.items()})
        expected[("header", "sar_related_data_in_the_record", "number_of_lines_per_dataset")] = n
        expected[("header", "sar_related_data_in_the_record", "number_of_data_groups_per_line")] = pixels
    seen = 0
    for loc, val in flat:
        e = table.get(T.loc_key(loc))
        if e is None:
            k = T.loc_key(loc)
            hdr = {"number_of_burst_data": ("header", "prefix_suffix_data_locators", "number_of_burst_data"),
                   "number_of_lines_per_burst": ("header", "prefix_suffix_data_locators", "number_of_lines_per_burst"),
                   "number_of_overlap_lines_with_adjacent_bursts": ("header", "scansar_burst_data_information", "number_of_overlap_lines_with_adjacent_bursts")}
            name = k.rsplit("|", 1)[-1]
            if k.startswith("/image|attr|") and name in hdr:
                # header attributes are filled in the probe (they are blank in the pinned BASE): present with the written value
                if val != expected.get(hdr[name]):
                    bad.append({"location": k, "written": expected.get(hdr[name]), "got": val})
                continue
            if k.startswith("/image|attr|valid_range"):
                mx = expected.get(("header", "prefix_suffix_data_locators", "maximum_data_range_of_pixel"))
                want_vr = {"#len": ("list", 2), "0": 0, "1": mx}[k.rsplit("|", 1)[-1]]
                if val != want_vr:
                    bad.append({"location": k, "written": want_vr, "got": val})
                continue
            bad.append({"unexpected location": k})
            continue
        if "src" not in e:
            continue
        path = tuple(p for p in e["src"].split(".") if p != "@0")
        if path not in expected:
            continue
        want = expected[path]
        seen += 1
        same = (val == want) if not isinstance(want, float) else (abs(val - want) <= 1e-9 * max(1.0, abs(want)))
        if not same:
            bad.append({"location": T.loc_key(loc), "source": e["src"], "written": want, "got": val})
    if seen < 20 and family != "volume":
        bad.append({"what": f"only {seen} source fields could be followed end to end"})
    return bad
