"""Engine L - symbolic interpreter for the live `construct` layouts of the repository.

Walks the real Struct objects with a stream position that is a z3 Int term.  The repository's own
`this`-expressions are *executed* (construct's BinExpr applies operator.* to whatever the context holds),
so lengths/counts/seek targets become z3 terms without any translation step.

Result of a run: list of leaves (path, kind chain, offset term, width term), parse side conditions,
end position term, and the value tree (python ints / z3 terms / tokens) shaped like the parsed container.
"""
import construct as c
import z3

from ceos_alos2 import datatypes as D
from ceos_alos2.sar_image import enums as E


class Ctx(dict):
    """construct-like context: attribute access, `_` = parent"""

    def __getattr__(self, k):
        try:
            return self[k]
        except KeyError:
            raise AttributeError(k) from None


class Leaf:
    __slots__ = ("path", "kind", "off", "width", "idx")

    def __init__(self, path, kind, off, width, idx=()):
        self.path, self.kind, self.off, self.width, self.idx = path, kind, off, width, idx

    @property
    def name(self):
        return ".".join(str(p) for p in self.path)

    def __repr__(self):
        off = z3.simplify(self.off) if z3.is_expr(self.off) else self.off
        return f"{self.name}: {self.kind} @ {off} +{self.width}"


def kind_json(kind):
    out = []
    for k in kind:
        out.append([k[0]] + [_j(x) for x in k[1:]])
    return out


def _j(x):
    if isinstance(x, tuple):
        return [_j(e) for e in x]
    if isinstance(x, float):
        return repr(x)
    return x


class Unsupported(Exception):
    pass


class Interp:
    def __init__(self, values=None, prefix="v"):
        self.leaves = []
        self.constraints = []  # parse-success side conditions (counts/widths >= 0)
        self.values = values or {}  # path tuple -> term/int override for numeric leaf values
        self.prefix = prefix
        self.vars = {}  # path -> z3 var created for a numeric leaf

    def ev(self, e, ctx):
        return e(ctx) if callable(e) else e

    def numvar(self, path):
        if path in self.values:
            return self.values[path]
        v = z3.Int(self.prefix + "_" + "_".join(map(str, path)))
        self.vars[path] = v
        return v

    def run(self, con, pos, ctx, path, kind=()):
        """-> (new position, value)"""
        if isinstance(con, c.Renamed):
            return self.run(con.subcon, pos, ctx, path, kind)
        if isinstance(con, c.Struct):
            my = Ctx(_=ctx)
            for sc in con.subcons:
                pos, val = self.run(sc, pos, my, path + ((sc.name,) if sc.name else ()), kind if False else ())
                if sc.name:
                    my[sc.name] = val
            if kind:
                my["@kind"] = kind
            return pos, my
        if isinstance(con, c.Array):
            count = self.ev(con.count, ctx)
            if isinstance(count, int):
                vals = []
                for i in range(count):
                    pos, v = self.run(con.subcon, pos, ctx, path + (i,), kind)
                    vals.append(v)
                return pos, vals
            # symbolic count over a fixed-size element: summarise with a generic index
            self.constraints.append(count >= 0)
            idx = z3.Int("i_" + "_".join(map(str, path)))
            sub = Interp(prefix=self.prefix + "_" + "_".join(map(str, path)) + "_i")
            end, v = sub.run(con.subcon, 0, ctx, (), kind)
            size = z3.simplify(end) if z3.is_expr(end) else end
            if not isinstance(size, int):
                if not z3.is_int_value(size):
                    raise Unsupported(f"variable-size element under symbolic count at {path}")
                size = size.as_long()
            for lf in sub.leaves:
                self.leaves.append(Leaf(path + ("*",) + lf.path, lf.kind, pos + idx * size + lf.off, lf.width,
                                        lf.idx + ((idx, count),)))
            return pos + count * size, ("array", count, size, v)
        if isinstance(con, c.FormatField):
            self.leaves.append(Leaf(path, kind + (("fmt", con.fmtstr),), pos, con.length))
            return pos + con.length, self.numvar(path)
        if isinstance(con, (D.AsciiInteger, D.AsciiFloat, D.PaddedString)):
            fs = con.subcon.subcon  # StringEncoded -> FixedSized
            n = self.ev(fs.length, ctx)
            if not isinstance(n, int):
                self.constraints.append(n >= 0)
            self.leaves.append(Leaf(path, kind + ((type(con).__name__,),), pos, n))
            val = self.numvar(path) if isinstance(con, D.AsciiInteger) else None
            return pos + n, val
        if isinstance(con, D.AsciiComplex):
            return self.run(con.subcon, pos, ctx, path, kind + (("AsciiComplex",),))
        if isinstance(con, D.Factor):
            return self.run(con.subcon, pos, ctx, path, kind + (("Factor", float(con.factor)),))
        if isinstance(con, D.Metadata):
            return self.run(con.subcon, pos, ctx, path, kind + (("Metadata", tuple(sorted(con.attrs.items()))),))
        if isinstance(con, c.Enum):
            table = tuple(sorted((str(k), v) for k, v in con.encmapping.items()))
            return self.run(con.subcon, pos, ctx, path, kind + (("Enum", table),))
        if isinstance(con, (D.DatetimeYdms, D.DatetimeYdus, D.StripNullBytes, E.Flag)):
            return self.run(con.subcon, pos, ctx, path, kind + ((type(con).__name__,),))
        if isinstance(con, c.Bytes):
            n = self.ev(con.length, ctx)
            self.leaves.append(Leaf(path, kind + (("Bytes",),), pos, n))
            return pos + n, None
        tn = type(con).__name__
        if tn == "Tell":
            return pos, pos
        if tn == "Computed":
            return pos, self.ev(con.func, ctx)
        if tn == "Seek":
            if self.ev(con.whence, ctx) != 0:
                raise Unsupported("Seek whence != 0")
            at = self.ev(con.at, ctx)
            return at, at
        raise Unsupported(f"construct class {tn} at {path}")


def interpret(con, pos=0, values=None, prefix="v"):
    it = Interp(values=values, prefix=prefix)
    end, val = it.run(con, pos, Ctx(), ())
    return it, end, val


def prove(assumptions, claim, timeout_ms=60000):
    """-> ('unsat'|'sat'|'unknown', model-or-None, seconds).  unsat == claim holds under assumptions"""
    import time

    s = z3.Solver()
    s.set("timeout", timeout_ms)
    s.add(*assumptions)
    s.add(z3.Not(claim))
    t0 = time.time()
    r = s.check()
    return str(r), (s.model() if r == z3.sat else None), time.time() - t0


def satisfiable(assumptions, timeout_ms=60000):
    s = z3.Solver()
    s.set("timeout", timeout_ms)
    s.add(*assumptions)
    r = s.check()
    return str(r), (s.model() if r == z3.sat else None)


def term_str(t):
    if z3.is_expr(t):
        return str(z3.simplify(t)).replace("\n", " ")
    return str(t)
