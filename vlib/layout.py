"""Engine L - symbolic interpreter for the live `construct` layouts of the repository.

Walks the real Struct objects with a stream position that is a z3 Int term.  The repository's own
`this`-expressions are *executed* (construct's BinExpr applies operator.* to whatever the context holds),
so lengths/counts/seek targets become z3 terms without any translation step.

Result of a run: list of leaves (path, kind chain, offset term, width term), parse side conditions,
end position term, and the value tree (python ints / z3 terms / tokens) shaped like the parsed container.
"""
import construct as c
import z3

from ceos_alos2 import datatypes as D
from ceos_alos2.sar_image import enums as E


class Ctx(dict):
    """construct-like context: attribute access, `_` = parent"""

    def __getattr__(self, k):
        try:
            return self[k]
        except KeyError:
            raise AttributeError(k) from None


class Leaf:
    __slots__ = ("path", "kind", "off", "width", "idx")

    def __init__(self, path, kind, off, width, idx=()):
        self.path, self.kind, self.off, self.width, self.idx = path, kind, off, width, idx

    @property
    def name(self):
        return ".".join(str(p) for p in self.path)

    def __repr__(self):
        off = z3.simplify(self.off) if z3.is_expr(self.off) else self.off
        return f"{self.name}: {self.kind} @ {off} +{self.width}"


def kind_json(kind):
    out = []
    for k in kind:
        out.append([k[0]] + [_j(x) for x in k[1:]])
    return out


def _j(x):
    if isinstance(x, tuple):
        return [_j(e) for e in x]
    if isinstance(x, float):
        return repr(x)
    return x


class Unsupported(Exception):
    pass


_MISSING = object()


def _fold(args, pick):
    if len(args) == 1 and isinstance(args[0], (list, tuple)):
        args = tuple(args[0])
    out = args[0]
    for a in args[1:]:
        if z3.is_expr(out) or z3.is_expr(a):
            out = pick(out, a)
        else:
            out = pick(out, a, concrete=True)
    return out


def zmax(*args):
    return _fold(args, lambda a, b, concrete=False: (a if a >= b else b) if concrete else z3.If(a >= b, a, b))


def zmin(*args):
    return _fold(args, lambda a, b, concrete=False: (a if a <= b else b) if concrete else z3.If(a <= b, a, b))


def zabs(a):
    return z3.If(a >= 0, a, -a) if z3.is_expr(a) else (a if a >= 0 else -a)


class Interp:
    def __init__(self, values=None, prefix="v"):
        self.leaves = []
        self.constraints = []  # parse-success side conditions (counts/widths >= 0)
        self.values = values or {}  # path tuple -> term/int override for numeric leaf values
        self.prefix = prefix
        self.vars = {}  # path -> z3 var created for a numeric leaf

    def ev(self, e, ctx):
        """evaluate a length/count: an int, a construct `this`-expression or a python lambda of the context.  Lambdas may call
        max/min/abs on terms: those builtins are shadowed by term-building versions in the lambda's globals for the call."""
        if not callable(e):
            return e
        import types

        g = e.__globals__ if isinstance(e, types.FunctionType) else None
        saved = {}
        if g is not None:
            for name, f in (("max", zmax), ("min", zmin), ("abs", zabs)):
                saved[name] = g.get(name, _MISSING)
                g[name] = f
        try:
            return e(ctx)
        except z3.Z3Exception as exc:
            raise Unsupported(f"expression {e!r} cannot be evaluated on terms: {exc}") from exc
        finally:
            if g is not None:
                for name, old in saved.items():
                    if old is _MISSING:
                        g.pop(name, None)
                    else:
                        g[name] = old

    def numvar(self, path):
        if path in self.values:
            return self.values[path]
        v = z3.Int(self.prefix + "_" + "_".join(map(str, path)))
        self.vars[path] = v
        return v

    def run(self, con, pos, ctx, path, kind=()):
        """-> (new position, value)"""
        if isinstance(con, c.Renamed):
            return self.run(con.subcon, pos, ctx, path, kind)
        if isinstance(con, c.Struct):
            my = Ctx(_=ctx)
            for sc in con.subcons:
                pos, val = self.run(sc, pos, my, path + ((sc.name,) if sc.name else ()), kind if False else ())
                if sc.name:
                    my[sc.name] = val
            if kind:
                my["@kind"] = kind
            return pos, my
        if isinstance(con, c.Array):
            count = self.ev(con.count, ctx)
            if isinstance(count, int):
                vals = []
                for i in range(count):
                    pos, v = self.run(con.subcon, pos, ctx, path + (i,), kind)
                    vals.append(v)
                return pos, vals
            # symbolic count over a fixed-size element: summarise with a generic index
            self.constraints.append(count >= 0)
            idx = z3.Int("i_" + "_".join(map(str, path)))
            sub = Interp(prefix=self.prefix + "_" + "_".join(map(str, path)) + "_i")
            end, v = sub.run(con.subcon, 0, ctx, (), kind)
            size = z3.simplify(end) if z3.is_expr(end) else end
            if not isinstance(size, int):
                if not z3.is_int_value(size):
                    raise Unsupported(f"variable-size element under symbolic count at {path}")
                size = size.as_long()
            for lf in sub.leaves:
                self.leaves.append(Leaf(path + ("*",) + lf.path, lf.kind, pos + idx * size + lf.off, lf.width,
                                        lf.idx + ((idx, count, size),)))
            return pos + count * size, ("array", count, size, v)
        if isinstance(con, c.FormatField):
            self.leaves.append(Leaf(path, kind + (("fmt", con.fmtstr),), pos, con.length))
            return pos + con.length, self.numvar(path)
        if isinstance(con, (D.AsciiInteger, D.AsciiFloat, D.PaddedString)):
            fs = con.subcon.subcon  # StringEncoded -> FixedSized
            n = self.ev(fs.length, ctx)
            if not isinstance(n, int):
                self.constraints.append(n >= 0)
            self.leaves.append(Leaf(path, kind + ((type(con).__name__,),), pos, n))
            val = self.numvar(path) if isinstance(con, D.AsciiInteger) else None
            return pos + n, val
        if isinstance(con, D.AsciiComplex):
            return self.run(con.subcon, pos, ctx, path, kind + (("AsciiComplex",),))
        if type(con).__name__ == "StringEncoded" and type(con.subcon).__name__ in ("FixedSized", "NullStripped"):
            # a raw construct PaddedString (not wrapped by one of the repository's adapters)
            fs = con.subcon
            while type(fs).__name__ != "FixedSized":
                fs = fs.subcon
            n = self.ev(fs.length, ctx)
            if not isinstance(n, int):
                self.constraints.append(n >= 0)
            self.leaves.append(Leaf(path, kind + (("RawPaddedString",),), pos, n))
            return pos + n, None
        if isinstance(con, D.Factor):
            return self.run(con.subcon, pos, ctx, path, kind + (("Factor", float(con.factor)),))
        if isinstance(con, D.Metadata):
            return self.run(con.subcon, pos, ctx, path, kind + (("Metadata", tuple(sorted(con.attrs.items()))),))
        if isinstance(con, c.Enum):
            table = tuple(sorted((str(k), v) for k, v in con.encmapping.items()))
            return self.run(con.subcon, pos, ctx, path, kind + (("Enum", table),))
        if isinstance(con, (D.DatetimeYdms, D.DatetimeYdus, D.StripNullBytes, E.Flag)):
            return self.run(con.subcon, pos, ctx, path, kind + ((type(con).__name__,),))
        if isinstance(con, c.Bytes):
            n = self.ev(con.length, ctx)
            self.leaves.append(Leaf(path, kind + (("Bytes",),), pos, n))
            return pos + n, None
        tn = type(con).__name__
        if tn == "Tell":
            return pos, pos
        if tn == "Computed":
            return pos, self.ev(con.func, ctx)
        if tn == "Seek":
            if self.ev(con.whence, ctx) != 0:
                raise Unsupported("Seek whence != 0")
            at = self.ev(con.at, ctx)
            return at, at
        raise Unsupported(f"construct class {tn} at {path}")


def interpret(con, pos=0, values=None, prefix="v"):
    it = Interp(values=values, prefix=prefix)
    end, val = it.run(con, pos, Ctx(), ())
    return it, end, val


def tiling_claim(it, start, end):
    """the leaves, in parse order, tile [start, end) without gap or overlap (arrays: count x element size).
    Together with 'no Seek' this means every byte below `end` is consumed by a fixed-size read."""
    claims = []
    pos = start
    i = 0
    leaves = it.leaves
    while i < len(leaves):
        lf = leaves[i]
        if not lf.idx:
            claims.append(lf.off == pos)
            pos = lf.off + lf.width
            i += 1
            continue
        idx, count, size = lf.idx[-1]
        j = i
        inner = pos
        base = pos
        while j < len(leaves) and leaves[j].idx and leaves[j].idx[-1][0] is idx:
            claims.append(leaves[j].off - idx * size == inner)
            inner = inner + leaves[j].width
            j += 1
        claims.append(inner == base + size)
        pos = base + count * size
        i = j
    claims.append(pos == end)
    return z3.And(*claims)


def prove(assumptions, claim, timeout_ms=60000):
    """-> ('unsat'|'sat'|'unknown', model-or-None, seconds).  unsat == claim holds under assumptions"""
    import time

    s = z3.Solver()
    s.set("timeout", timeout_ms)
    s.add(*assumptions)
    s.add(z3.Not(claim))
    t0 = time.time()
    r = s.check()
    return str(r), (s.model() if r == z3.sat else None), time.time() - t0


def satisfiable(assumptions, timeout_ms=60000):
    s = z3.Solver()
    s.set("timeout", timeout_ms)
    s.add(*assumptions)
    r = s.check()
    return str(r), (s.model() if r == z3.sat else None)


def term_str(t):
    if z3.is_expr(t):
        return str(z3.simplify(t)).replace("\n", " ")
    return str(t)


def _concrete(x):
    return x if isinstance(x, int) else z3.simplify(x + 0).as_long()


def conformance():
    """interpreter vs synthesiser (independent walk of the same live structs) vs real parser, on concrete structure parameters"""
    from ceos_alos2.sar_image.file_descriptor import file_descriptor_record as img_fd
    from ceos_alos2.sar_image.processed_data import processed_data_record
    from ceos_alos2.sar_image.signal_data import signal_data_record
    from ceos_alos2.sar_leader import attitude, data_quality_summary, dataset_summary, facility_related_data
    from ceos_alos2.sar_leader import file_descriptor as ledfd
    from ceos_alos2.sar_leader import map_projection, platform_position, radiometric_data
    from ceos_alos2.sar_trailer.file_descriptor import file_descriptor_record as trl_fd
    from ceos_alos2.volume_directory.structure import volume_directory_record
    from vlib import synth

    P = synth.preamble
    cases = [
        (img_fd, {"preamble": P(1, 50, 192, 18, 18, 720)}, {}),
        (signal_data_record, {"preamble": P(2, 50, 10, 18, 20, 600)}, {("preamble", "record_length"): 600}),
        (processed_data_record, {"preamble": P(2, 50, 11, 18, 20, 300)}, {("preamble", "record_length"): 300}),
        (ledfd.file_descriptor_record, {}, {}),
        (dataset_summary.dataset_summary_record, {"motion_compensation_indicator": 0, "base_band_conversion_flag": "YES",
                                                  "range_compression_flag": "NO", "echo_tracker_status": "ON",
                                                  "weighting_function_in_azimuth": "1", "weighting_function_in_range": "1",
                                                  "clutter_lock_applied_flag": "YES", "auto_focusing_applied_flag": "YES"}, {}),
        (map_projection.map_projection_record, {}, {}),
        (platform_position.platform_position_record, {"orbital_elements_designator": "2"}, {}),
        (attitude.attitude_record, {"preamble": P(5, 18, 40, 18, 20, 1000), "number_of_points": 5},
         {("preamble", "record_length"): 1000, ("number_of_points",): 5}),
        (radiometric_data.radiometric_data_record, {}, {}),
        (data_quality_summary.data_quality_summary_record, {"number_of_channels": 3}, {("number_of_channels",): 3}),
        (facility_related_data.facility_related_data_record, {"preamble": P(8, 18, 200, 18, 70, 90)}, {("preamble", "record_length"): 90}),
        (facility_related_data.facility_related_data_5_record, {"calibration_mode_data_location_flag": 0}, {}),
        (volume_directory_record, {"volume_descriptor": {"number_of_file_pointer_records": 3}},
         {("volume_descriptor", "number_of_file_pointer_records"): 3}),
        (trl_fd, {"number_of_low_resolution_images": 2}, {("number_of_low_resolution_images",): 2}),
    ]
    total = 0
    for struct, vals, ivals in cases:
        rec = []
        try:
            raw, _ = synth.build(struct, vals, {}, rec=rec)
        except Exception:  # noqa: BLE001 - the synthesiser's sample values do not fit this struct (any more): nothing to compare the model with
            continue
        it, end, _ = interpret(struct, values=ivals)
        mine = [(lf.path, _concrete(lf.off), _concrete(lf.width)) for lf in it.leaves]
        assert mine == rec, ("interpreter/synthesiser disagree", [x for x in zip(mine, rec) if x[0] != x[1]][:3])
        total += len(mine)
        if struct not in (signal_data_record, processed_data_record):
            assert _concrete(end) == len(raw), (end, len(raw))
            struct.parse(raw)
        else:
            struct.parse(raw + bytes(_concrete(end) - len(raw)))
    return total
